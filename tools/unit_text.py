"""Translation unit: the scanners of flussab/src/text.rs -> Gen/TextGen.lean (state: the view L1').

The scanners touch the reader only through `request_byte_at_offset` (= `View.reqAt`, theorem
`request_byte_at_offset_tied` + the refinement theorems of C01/C02), `buf_len()` (the explicit
parameter `bl` of the `_multi` variants; property C13 is the theorem that the result does not depend on
it) and the unsafe 8-byte load at `buf_ptr().add(offset)`, translated as a *checked* load that panics
unless `offset + 8 <= buf_len()`.
"""
from unitbase import *


class TextUnit(Unit):
    name = "text"
    file = "flussab/src/text.rs"
    impl = None
    out = "TextGen.lean"
    namespace = "Flussab.Gen.Text"
    imports = ["Flussab.Model.TextExt"]
    monad = "RM View"
    state_vars = {"reader", "input"}
    state_types = ("DeferredReader",)
    types = {"I": "Int", "Option<I>": "Option Int", "(Option<I>, usize)": "(Option Int × Nat)", "[u8]": "List UInt8",
             "i32": "Int", "(I, bool)": "(Int × Bool)"}
    int_params = {"I"}
    generic_binder = "(t : IntTy)"
    generic_arg = "t"
    extra_binders = {"ascii_digits_multi": "(bl : Nat)", "signed_ascii_digits_multi": "(bl : Nat)"}
    skip = {
        "swar_ascii_digits_u64_le": "translated by tools/gen_swar.py into Gen/Swar.lean (BitVec kernel, proved for all 2^64 words)",
    }
    casts = {("bool", "usize"): "(if {} then 1 else 0)", ("u32", "i32"): "({}).toInt", ("u8", "u64"): "(({}).toBitVec.setWidth 64)"}
    neg = {"i32": "(-{})"}
    fuel = {n: "(← RM.get).rest.length + 1" for n in
            ("ascii_digits", "ascii_digits_cont_pos", "ascii_digits_cont_neg", "signed_ascii_digits",
             "tabs_or_spaces", "next_newline")}

    def __init__(self):
        super().__init__()

        def req_at(em, e, env, hint):
            a = em.cexpr(e[3][0], env, "usize")
            t = env.fresh()
            return Code(t, "Option<u8>", a.pre + [f"let {t} ← TextExt.reqAt {paren(a.val)}"])

        def buf_len(em, e, env, hint):
            if "bl" not in env.extra:
                raise TErr(f"text: `{env.fn.name}` looks at buf_len() but is not one of the `_multi` scanners")
            return Code("bl", "usize")

        self.state_methods = {"request_byte_at_offset": req_at, "buf_len": buf_len}

        def i_zero(em, e, env, hint):
            return Code("(0 : Int)", "I")

        def from_u32(em, e, env, hint):
            a = em.cexpr(e[2][0], env, "u32")
            return Code(f"(t.fromInt (({a.val}).toNat : Int))", "Option<I>", a.pre)

        def from_i32(em, e, env, hint):
            a = em.cexpr(e[2][0], env, "i32")
            return Code(f"(t.fromInt {paren(a.val)})", "Option<I>", a.pre)

        def from_u8(em, e, env, hint):
            a = em.cexpr(e[2][0], env, "u8")
            return Code(f"(t.fromInt (({a.val}).toNat : Int))", "Option<I>", a.pre)

        def swar(em, e, env, hint):
            a = em.cexpr(e[2][0], env, "u64")
            return Code(f"(Gen.swarAsciiDigitsU64Le {paren(a.val)})", "(u32, usize)", a.pre)

        def le_load(em, e, env, hint):
            # u64::from_le_bytes(*(reader.buf_ptr().add(OFF) as *const [u8; 8]))
            a = strip_ref(e[2][0])
            ok = (a[0] == "cast" and norm_ty(a[2]).replace(" ", "") in ("*const[u8; 8]", "*const[u8;8]"))
            inner = strip_ref(a[1]) if ok else None
            ok = ok and inner[0] == "mcall" and inner[2] == "add" and inner[1][0] == "mcall" and inner[1][2] == "buf_ptr" \
                and em.is_state(inner[1][1], env)
            if not ok:
                raise TErr("text: u64::from_le_bytes is expected to load 8 bytes at reader.buf_ptr().add(offset)")
            if "bl" not in env.extra:
                raise TErr(f"text: `{env.fn.name}` loads from the buffer but is not one of the `_multi` scanners")
            off = em.cexpr(inner[3][0], env, "usize")
            t = env.fresh("w")
            return Code(t, "u64", off.pre + [f"let {t} ← TextExt.loadLe64 bl {paren(off.val)}"])

        self.functions = {"I::zero": i_zero, "I::from_u32": from_u32, "I::from_i32": from_i32, "I::from_u8": from_u8,
                          "swar_ascii_digits_u64_le": swar, "u64::from_le_bytes": le_load}

        def ovf(op):
            def h(em, c, e, env, hint):
                a = em.cexpr(e[3][0], env, "I")
                return Code(f"(t.{op} {paren(c.val)} {paren(a.val)})", "(I, bool)", c.pre + a.pre)
            return h

        def unwrap(em, c, e, env, hint):
            t = env.fresh()
            return Code(t, "I", c.pre + [f"let {t} ← RM.liftOpt {paren(c.val)}"])

        def then_some(em, c, e, env, hint):
            a = em.cexpr(e[3][0], env)
            return Code(f"(if {c.val} then some {paren(a.val)} else none)", f"Option<{a.ty}>", c.pre + a.pre)

        def is_none(em, c, e, env, hint):
            return Code(f"({c.val}).isNone", "bool", c.pre)

        def is_some(em, c, e, env, hint):
            return Code(f"({c.val}).isSome", "bool", c.pre)

        def unwrap_or(em, c, e, env, hint):
            a = em.cexpr(e[3][0], env, "I")
            return Code(f"(({c.val}).getD {paren(a.val)})", "I", c.pre + a.pre)

        def slice_len(em, c, e, env, hint):
            return Code(f"({c.val}).length", "usize", c.pre)

        self.value_methods = {
            ("I", "overflowing_mul"): ovf("omul"), ("I", "overflowing_add"): ovf("oadd"), ("I", "overflowing_sub"): ovf("osub"),
            ("Option<I>", "unwrap"): unwrap, ("bool", "then_some"): then_some,
            ("Option<I>", "is_none"): is_none, ("Option<I>", "unwrap_or"): unwrap_or,
            ("Option<u8>", "is_some"): is_some, ("[u8]", "len"): slice_len,
        }


UNIT = TextUnit
