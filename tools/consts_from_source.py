#!/usr/bin/env python3
"""consts_from_source.py [repo] [out]
Extracts every integer constant (literals and simple constant expressions such as `64 << 10`,
`16 * 1024`, `1 << 20`) from the non-test Rust sources of the repository and writes them, one per
line, to harness/consts.txt.  The harness's scale families place input sizes (bytes, run lengths,
item counts, stream positions) around every such constant (c-1, c, c+1, c+small, multiples), the
way a fuzzer dictionary works: a size threshold that the code compares against is then straddled
by generated cases whatever its value.  Regenerated from /repo on every ./check run."""
import os, re, sys

repo = sys.argv[1] if len(sys.argv) > 1 else "/repo"
out = sys.argv[2] if len(sys.argv) > 2 else os.path.join(os.path.dirname(os.path.dirname(os.path.abspath(__file__))), "harness", "consts.txt")

LIT = r"(?<![\w.])(0x[0-9a-fA-F_]+|0b[01_]+|0o[0-7_]+|[0-9][0-9_]*)(?:_?(?:u|i)(?:8|16|32|64|128|size))?(?![\w.])"


def val(tok):
    t = tok.replace("_", "")
    try:
        return int(t, 0) if t[:2].lower() in ("0x", "0b", "0o") else int(t)
    except ValueError:
        return None


def strip(src):
    # drop comments, string/char literals and the trailing #[cfg(test)] module
    src = re.sub(r"//[^\n]*", "", src)
    src = re.sub(r"/\*.*?\*/", "", src, flags=re.S)
    src = re.sub(r'b?"(?:\\.|[^"\\])*"', '""', src)
    src = re.sub(r"b?'(?:\\.|[^'\\])'", "' '", src)
    i = src.find("#[cfg(test)]")
    return src if i < 0 else src[:i]


vals = set()
for crate in sorted(os.listdir(repo)):
    d = os.path.join(repo, crate, "src")
    if not os.path.isdir(d):
        continue
    for root, _, files in os.walk(d):
        for f in sorted(files):
            if not f.endswith(".rs"):
                continue
            s = strip(open(os.path.join(root, f), encoding="utf-8", errors="replace").read())
            for m in re.finditer(LIT, s):
                v = val(m.group(1))
                if v is not None:
                    vals.add(v)
            for m in re.finditer(LIT + r"\s*(<<|\*|\+|-)\s*" + LIT, s):
                a, op, b = val(m.group(1)), m.group(2), val(m.group(3))
                if a is None or b is None:
                    continue
                if op == "<<" and b < 64:
                    vals.add(a << b)
                elif op == "*":
                    vals.add(a * b)
                elif op == "+":
                    vals.add(a + b)
                elif op == "-" and a >= b:
                    vals.add(a - b)
# ---- byte-string dictionary: string / byte-string / byte literals and arrays of byte-valued
# integers, for the generators to splice into documents (a change that special-cases a magic
# prefix or token - a byte order mark, a new keyword - is then exercised with that very token)
def unescape(body):
    out, i = bytearray(), 0
    while i < len(body):
        c = body[i]
        if c == "\\" and i + 1 < len(body):
            n = body[i + 1]
            if n == "x" and i + 3 < len(body):
                try:
                    out.append(int(body[i + 2:i + 4], 16)); i += 4; continue
                except ValueError:
                    pass
            m = {"n": 10, "r": 13, "t": 9, "0": 0, "\\": 92, "'": 39, '"': 34}.get(n)
            if m is not None:
                out.append(m); i += 2; continue
            if n == "u":
                j = body.find("}", i)
                try:
                    out += chr(int(body[i + 3:j], 16)).encode("utf-8"); i = j + 1; continue
                except (ValueError, OverflowError):
                    pass
        out += c.encode("utf-8")
        i += 1
    return bytes(out)


def strip_for_literals(src):
    src = re.sub(r"//[^\n]*", "", src)
    src = re.sub(r"/\*.*?\*/", "", src, flags=re.S)
    i = src.find("#[cfg(test)]")
    return src if i < 0 else src[:i]


lits = set()
for crate in sorted(os.listdir(repo)):
    d = os.path.join(repo, crate, "src")
    if not os.path.isdir(d):
        continue
    for root, _, files in os.walk(d):
        for f in sorted(files):
            if not f.endswith(".rs"):
                continue
            s = strip_for_literals(open(os.path.join(root, f), encoding="utf-8", errors="replace").read())
            for m in re.finditer(r'b?"((?:\\.|[^"\\])*)"', s):
                lits.add(unescape(m.group(1)))
            for m in re.finditer(r"b?'((?:\\.|[^'\\])+)'", s):
                lits.add(unescape(m.group(1)))
            for m in re.finditer(r"\[((?:\s*(?:0x[0-9a-fA-F]{1,2}|[0-9]{1,3})(?:_?u8)?\s*,)+\s*(?:0x[0-9a-fA-F]{1,2}|[0-9]{1,3})(?:_?u8)?\s*,?\s*)\]", s):
                try:
                    bs = [int(x.strip().replace("_u8", "").replace("u8", ""), 0) for x in m.group(1).split(",") if x.strip()]
                    if all(0 <= b < 256 for b in bs):
                        lits.add(bytes(bs))
                except ValueError:
                    pass
lit_out = os.path.join(os.path.dirname(out), "literals.txt")
lit_text = "".join(b.hex() + "\n" for b in sorted(lits) if 1 <= len(b) <= 16)
if not os.path.exists(lit_out) or open(lit_out).read() != lit_text:
    open(lit_out, "w").write(lit_text)

keep = sorted(v for v in vals if 0 <= v < (1 << 64))
text = "".join(f"{v}\n" for v in keep)
old = open(out).read() if os.path.exists(out) else None
if old != text:
    open(out, "w").write(text)
print(f"{len(keep)} integer constants, {lit_text.count(chr(10))} byte-string literals from {repo} -> {out}, {lit_out}" + ("" if old == text else " (changed)"))
