#!/usr/bin/env python3
"""consts_from_source.py [repo] [out]
Extracts every integer constant (literals and simple constant expressions such as `64 << 10`,
`16 * 1024`, `1 << 20`) from the non-test Rust sources of the repository and writes them, one per
line, to harness/consts.txt.  The harness's scale families place input sizes (bytes, run lengths,
item counts, stream positions) around every such constant (c-1, c, c+1, c+small, multiples), the
way a fuzzer dictionary works: a size threshold that the code compares against is then straddled
by generated cases whatever its value.  Regenerated from /repo on every ./check run."""
import os, re, sys

repo = sys.argv[1] if len(sys.argv) > 1 else "/repo"
out = sys.argv[2] if len(sys.argv) > 2 else os.path.join(os.path.dirname(os.path.dirname(os.path.abspath(__file__))), "harness", "consts.txt")

LIT = r"(?<![\w.])(0x[0-9a-fA-F_]+|0b[01_]+|0o[0-7_]+|[0-9][0-9_]*)(?:_?(?:u|i)(?:8|16|32|64|128|size))?(?![\w.])"


def val(tok):
    t = tok.replace("_", "")
    try:
        return int(t, 0) if t[:2].lower() in ("0x", "0b", "0o") else int(t)
    except ValueError:
        return None


def strip(src):
    # drop comments, string/char literals and the trailing #[cfg(test)] module
    src = re.sub(r"//[^\n]*", "", src)
    src = re.sub(r"/\*.*?\*/", "", src, flags=re.S)
    src = re.sub(r'b?"(?:\\.|[^"\\])*"', '""', src)
    src = re.sub(r"b?'(?:\\.|[^'\\])'", "' '", src)
    i = src.find("#[cfg(test)]")
    return src if i < 0 else src[:i]


vals = set()
for crate in sorted(os.listdir(repo)):
    d = os.path.join(repo, crate, "src")
    if not os.path.isdir(d):
        continue
    for root, _, files in os.walk(d):
        for f in sorted(files):
            if not f.endswith(".rs"):
                continue
            s = strip(open(os.path.join(root, f), encoding="utf-8", errors="replace").read())
            for m in re.finditer(LIT, s):
                v = val(m.group(1))
                if v is not None:
                    vals.add(v)
            for m in re.finditer(LIT + r"\s*(<<|\*|\+|-)\s*" + LIT, s):
                a, op, b = val(m.group(1)), m.group(2), val(m.group(3))
                if a is None or b is None:
                    continue
                if op == "<<" and b < 64:
                    vals.add(a << b)
                elif op == "*":
                    vals.add(a * b)
                elif op == "+":
                    vals.add(a + b)
                elif op == "-" and a >= b:
                    vals.add(a - b)
keep = sorted(v for v in vals if 0 <= v < (1 << 64))
text = "".join(f"{v}\n" for v in keep)
old = open(out).read() if os.path.exists(out) else None
if old != text:
    open(out, "w").write(text)
print(f"{len(keep)} integer constants from {repo} -> {out}" + ("" if old == text else " (changed)"))
