"""Translation unit: the BTOR2 writer of flussab-btor2/src/btor2.rs -> Gen/Btor2WriteGen.lean.

One unit over the inherent `impl` blocks of `Line`, `NodeId`, `Node`, `NodeVariant`, `Sort`, `Value`, `UnaryOp`,
`BinaryOp`, `TernaryOp`, `Assignment`, `Output`, `SingleValueOutput`.  Several of them define `write_into` /
`name`, so the functions are keyed `Impl::name` (`qualify_by_impl` of tools/gen_core.py), the Lean names are
`<impl><Name>` (`nodeIdWriteInto`, `unaryOpName`, ..), calls between them are resolved by the Rust type of the
receiver (`value_methods`), and the definition order is given explicitly (`order`).

State: `target: &mut DeferredWriter` = the model `Writer` (monad `RM Writer`); `&self` is an ordinary value.
The calls into the writer are the *generated* functions of the units writer / writetext:

  target.write_all_defer_err(bs)                          `Gen.Writer.writeAllDeferErr bs`
  flussab::write::text::ascii_digits(target, v)           `Gen.WriteText.asciiDigits false 64 (Int.ofNat v)`
                                                          (`v: u64` or `usize` (`nodes.len()`) in every call)
Values (Model/Btor2WriteExt.lean: Lean types of the *Rust* shape; `toModel` maps them onto the types of
Model/Btor2.lean, which inlines `Value`, `Assignment`, `SingleValueOutput`, `Array` and the operand arrays):
  `NodeId(NonZeroU64)`, `NonZeroU64`, `u64`   `Nat`; `self.0.get()`, `width.get()` are the value itself
  `&BStr`, `&str`                              their bytes (`as_bytes()` is the identity)
  `BinaryConst` / `HexConst` / `DecimalConst`  the digit string (`const_value.0.as_bytes()` is the identity);
                                               `Const` is the model's `Btor2.Const`
  `[NodeId; 2]`, `[NodeId; 3]`                 pairs / triples; the slice patterns `[a0, a1]` are tuple patterns
  `&[NodeId]`                                  `List Nat`; `for node in nodes` = structural recursion (`for_slices`)
  `UnaryOp`, `BinaryOp`, `TernaryOp`, `AssignmentKind`, `SingleValueOutputKind`   the generated enums of
                                               Gen/Btor2Tables.lean
  string literals (`name()`)                   their bytes (`str_bytes`)
"""
from unitbase import *

X = "Btor2WriteExt."
T = "Gen.Btor2."

BINARY_OPS = ["Iff", "Implies", "Eq", "Neq", "Ugt", "Sgt", "Ugte", "Sgte", "Ult", "Slt", "Ulte", "Slte", "And", "Nand",
              "Nor", "Or", "Xnor", "Xor", "Rol", "Ror", "Sll", "Sra", "Srl", "Add", "Mul", "Udiv", "Sdiv", "Smod", "Urem",
              "Srem", "Sub", "Uaddo", "Saddo", "Sdivo", "Umulo", "Smulo", "Usubo", "Ssubo", "Concat", "Read"]


def lower1(s):
    return s[0].lower() + s[1:]


class Btor2WriteUnit(Unit):
    name = "btor2write"
    file = "flussab-btor2/src/btor2.rs"
    impl = None
    impls = ("Line", "NodeId", "Node", "NodeVariant", "Sort", "Value", "UnaryOp", "BinaryOp", "TernaryOp",
             "Assignment", "Output", "SingleValueOutput")
    qualify_by_impl = True
    out = "Btor2WriteGen.lean"
    namespace = "Flussab.Gen.Btor2Write"
    imports = ["Flussab.Gen.WriteTextGen", "Flussab.Model.Btor2WriteExt"]
    monad = "RM Writer"
    state_vars = {"target"}
    state_types = ("DeferredWriter",)
    trust_exhaustive = True     # Rust checked the matches; Lean re-checks them when the file is built
    for_slices = True
    split_or_bindings = True
    str_bytes = True
    structs = [("Node", ["id", "variant", "symbol", "comment"]), ("Value", ["sort", "variant"]),
               ("Assignment", ["state", "sort", "kind", "value"]), ("SingleValueOutput", ["kind", "value"])]
    order = ["NodeId::write_into", "Sort::write_into", "Assignment::write_into", "SingleValueOutput::write_into",
             "Output::write_into", "UnaryOp::name", "BinaryOp::name", "TernaryOp::name", "UnaryOp::write_indices_into",
             "Value::write_into", "NodeVariant::write_into", "Node::write_into", "Line::write_into_unterminated",
             "Line::write_into"]
    skip = {
        "Line::has_comment": "parser-side helper (`matches!` on the line), not part of the writer",
        "Line::update_comment": "parser-side patching of the placeholder comment (`&mut self`)",
        "Line::update_bufs": "parser-side patching of the placeholder buffers (`&mut self`)",
        "NodeId::new": "constructor (`NonZeroU64::new(id).unwrap()`), not part of the writer",
        "Sort::bit_vec": "constructor, not part of the writer",
    }
    types = {
        "u64": "Nat", "NodeId": "Nat", "NonZeroU64": "Nat", "str": "List UInt8", "[u8]": "List UInt8",
        "[NodeId]": "(List Nat)", "[NodeId; 2]": "(Nat × Nat)", "[NodeId; 3]": "(Nat × Nat × Nat)",
        "Line": X + "Line", "Node": X + "Node", "NodeVariant": X + "NodeVariant", "Sort": X + "BSort",
        "Array": X + "Arr", "Value": X + "Value", "ValueVariant": X + "ValueVariant", "Op": X + "Op",
        "Const": "Btor2.Const", "BinaryConst": "List UInt8", "HexConst": "List UInt8", "DecimalConst": "List UInt8",
        "Assignment": X + "Assignment", "Output": X + "Output", "SingleValueOutput": X + "SingleValueOutput",
        "UnaryOp": T + "UnaryOp", "BinaryOp": T + "BinaryOp", "TernaryOp": T + "TernaryOp",
        "AssignmentKind": T + "AssignmentKind", "SingleValueOutputKind": T + "SingleValueOutputKind",
        "Option<[u8]>": "Option (List UInt8)",
    }
    value_fields = {
        ("Node", "id"): ("id", "NodeId"), ("Node", "variant"): ("variant", "NodeVariant"),
        ("Node", "symbol"): ("symbol", "Option<[u8]>"), ("Node", "comment"): ("comment", "Option<[u8]>"),
        ("Value", "sort"): ("sort", "NodeId"), ("Value", "variant"): ("variant", "ValueVariant"),
        ("Assignment", "state"): ("state", "NodeId"), ("Assignment", "sort"): ("sort", "NodeId"),
        ("Assignment", "kind"): ("kind", "AssignmentKind"), ("Assignment", "value"): ("value", "NodeId"),
        ("SingleValueOutput", "kind"): ("kind", "SingleValueOutputKind"),
        ("SingleValueOutput", "value"): ("value", "NodeId"),
    }
    ctor_arg_types = {
        "Line::Comment": ["[u8]"], "Line::Node": ["Node"],
        "NodeVariant::Sort": ["Sort"], "NodeVariant::Value": ["Value"], "NodeVariant::Assignment": ["Assignment"],
        "NodeVariant::Output": ["Output"],
        "Sort::BitVec": ["NonZeroU64"], "Sort::Array": ["Array"], "Array": ["NodeId", "NodeId"],
        "ValueVariant::Const": ["Const"], "ValueVariant::Op": ["Op"],
        "Const::Binary": ["BinaryConst"], "Const::Hex": ["HexConst"], "Const::Decimal": ["DecimalConst"],
        "Op::Unary": ["UnaryOp", "NodeId"], "Op::Binary": ["BinaryOp", "[NodeId; 2]"],
        "Op::Ternary": ["TernaryOp", "[NodeId; 3]"],
        "UnaryOp::Uext": ["u64"], "UnaryOp::Sext": ["u64"], "UnaryOp::Slice": ["u64", "u64"],
        "Output::SingleValue": ["SingleValueOutput"], "Output::Justice": ["[NodeId]"],
    }

    def self_value_type(self, fn):
        return fn.impl_of[1]

    def lean_name(self, rust):
        if "::" in rust:
            impl, n = rust.split("::")
            c = camel(n)
            return lower1(impl) + c[0].upper() + c[1:]
        return camel(rust)

    def __init__(self):
        super().__init__()
        u = self
        self.ctors = {
            "Line::Comment": X + "Line.comment", "Line::Node": X + "Line.node",
            "NodeVariant::Sort": X + "NodeVariant.sort", "NodeVariant::Value": X + "NodeVariant.value",
            "NodeVariant::Assignment": X + "NodeVariant.assignment", "NodeVariant::Output": X + "NodeVariant.output",
            "Sort::BitVec": X + "BSort.bitVec", "Sort::Array": X + "BSort.array", "Array": X + "Arr.mk",
            "ValueVariant::Const": X + "ValueVariant.const", "ValueVariant::Input": X + "ValueVariant.input",
            "ValueVariant::State": X + "ValueVariant.state", "ValueVariant::Op": X + "ValueVariant.op",
            "Const::Binary": "Btor2.Const.binary", "Const::Hex": "Btor2.Const.hex", "Const::Decimal": "Btor2.Const.decimal",
            "Const::One": "Btor2.Const.one", "Const::Ones": "Btor2.Const.ones", "Const::Zero": "Btor2.Const.zero",
            "Op::Unary": X + "Op.unary", "Op::Binary": X + "Op.binary", "Op::Ternary": X + "Op.ternary",
            "AssignmentKind::Init": T + "AssignmentKind.init", "AssignmentKind::Next": T + "AssignmentKind.next",
            "Output::SingleValue": X + "Output.singleValue", "Output::Justice": X + "Output.justice",
        }
        for k in ("Output", "Bad", "Constraint", "Fair"):
            self.ctors["SingleValueOutputKind::" + k] = T + "SingleValueOutputKind." + k.lower()
        for k in ("Uext", "Sext", "Slice", "Not", "Inc", "Dec", "Neg", "Redand", "Redor", "Redxor"):
            self.ctors["UnaryOp::" + k] = T + "UnaryOp." + k.lower()
        for k in BINARY_OPS:
            self.ctors["BinaryOp::" + k] = T + "BinaryOp." + k.lower()
        for k in ("Ite", "Write"):
            self.ctors["TernaryOp::" + k] = T + "TernaryOp." + k.lower()

        def write_all_defer_err(em, e, env, hint):
            a = em.cexpr(e[3][0], env, "[u8]")
            if a.ty not in ("[u8]", "str"):
                raise TErr(f"{u.name}::{env.fn.name}: `write_all_defer_err` of a value of type {a.ty}")
            return Code("()", "()", a.pre + [f"Gen.Writer.writeAllDeferErr {paren(a.val)}"])

        self.state_methods = {"write_all_defer_err": write_all_defer_err}

        def ascii_digits(em, e, env, hint):
            if len(e[2]) != 2 or not em.is_state(e[2][0], env):
                raise TErr(f"{u.name}::{env.fn.name}: `ascii_digits` is expected to write to `target`")
            v = em.cexpr(e[2][1], env, "u64")
            if v.ty not in ("u64", "usize"):
                raise TErr(f"{u.name}::{env.fn.name}: `ascii_digits` of a value of type {v.ty} (expected u64 / usize)")
            return Code("()", "()", v.pre + [f"Gen.WriteText.asciiDigits false 64 (Int.ofNat {paren(v.val)})"])

        self.functions = {"flussab::write::text::ascii_digits": ascii_digits}

        def ident(ty):
            def h(em, c, e, env, hint):
                if e[3]:
                    raise TErr("unexpected arguments")
                return Code(c.val, ty, c.pre)
            return h

        def slice_len(em, c, e, env, hint):
            return Code(f"{paren(c.val)}.length", "usize", c.pre)

        def method(impl, rust, writes=True, ret="()"):
            """`x.<rust>(target)` (or `x.name()`) on a value of type `impl`: the unit's function `impl::rust`."""
            def h(em, c, e, env, hint):
                q = f"{impl}::{rust}"
                if q not in u.fns or q in u.skip:
                    raise TErr(f"{u.name}::{env.fn.name}: call of `{q}`, which is not translated")
                if writes:
                    if len(e[3]) != 1 or not em.is_state(e[3][0], env):
                        raise TErr(f"{u.name}::{env.fn.name}: `{q}` is expected to write to `target`")
                elif e[3]:
                    raise TErr(f"{u.name}::{env.fn.name}: `{q}` takes no arguments")
                call = f"{u.lean_name(q)} {paren(c.val)}"
                if ret == "()":
                    return Code("()", "()", c.pre + [call])
                t = env.fresh()
                return Code(t, ret, c.pre + [f"let {t} ← {call}"])
            return h

        self.value_methods = {
            ("NonZeroU64", "get"): ident("u64"), ("str", "as_bytes"): ident("[u8]"), ("[NodeId]", "len"): slice_len,
            ("Line", "write_into_unterminated"): method("Line", "write_into_unterminated"),
            ("UnaryOp", "write_indices_into"): method("UnaryOp", "write_indices_into"),
        }
        for impl in ("NodeId", "Node", "NodeVariant", "Sort", "Value", "Assignment", "Output", "SingleValueOutput"):
            self.value_methods[(impl, "write_into")] = method(impl, "write_into")
        for impl in ("UnaryOp", "BinaryOp", "TernaryOp"):
            self.value_methods[(impl, "name")] = method(impl, "name", writes=False, ret="str")

        def newtype_field(em, e, env, hint):
            """`x.0.get()` of a `NodeId`, `x.0.as_bytes()` of a `BinaryConst` / `HexConst` / `DecimalConst`."""
            if not (e[0] == "mcall" and e[1][0] == "field" and e[1][2] == "0" and not e[3]):
                return None
            ty = em.tyof(e[1][1], env)
            if (ty, e[2]) == ("NodeId", "get"):
                c = em.cexpr(e[1][1], env)
                return Code(c.val, "u64", c.pre)
            if ty in ("BinaryConst", "HexConst", "DecimalConst") and e[2] == "as_bytes":
                c = em.cexpr(e[1][1], env)
                return Code(c.val, "[u8]", c.pre)
            return None

        self.chain_handlers = [newtype_field]

        def pslice(em, p, env, ty):
            """`[a0, a1]` / `[a0, a1, a2]` on `[NodeId; N]`: the tuple pattern."""
            if p[0] != "pslice":
                return None
            n = {"[NodeId; 2]": 2, "[NodeId; 3]": 3}.get(ty)
            if n is None or len(p[1]) != n:
                raise TErr(f"{u.name}: slice pattern of {len(p[1])} elements on type {ty}")
            ps, conds, binds = [], [], {}
            for q in p[1]:
                a, c, b = em.cpat(q, env, "NodeId")
                ps.append(a)
                conds += c
                binds.update(b)
            return "(" + ", ".join(ps) + ")", conds, binds

        self.pat_handler = pslice


UNIT = Btor2WriteUnit
