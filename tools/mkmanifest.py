#!/usr/bin/env python3
"""Regenerate /verif/MANIFEST.json from tools/registry.py (run after editing the registry)."""
import json, os, sys
ROOT = os.path.dirname(os.path.dirname(os.path.abspath(__file__)))
sys.path.insert(0, os.path.join(ROOT, "tools"))
from registry import PROPS, ENGINES, HOOK_COMMITS

ids = [json.loads(l)["id"] for l in open(os.path.join(ROOT, "properties.jsonl"))]
checks = []
for pid in ids:
    if pid not in PROPS:
        continue
    c = PROPS[pid]
    checks.append({
        "property_id": pid,
        "quick_cmd": f"./check {pid} --tier quick",
        "thorough_cmd": f"./check {pid} --tier thorough",
        "evidence_file": f"/verif/evidence/{pid}.json",
        "replay_cmd_template": f"./check {pid} --replay {{path}}",
        "engine": ",".join(e for (e, _, _, _) in c["engines"]),
        "level_claimed": {"category": "proof", "text": c["claim"], "design_ref": c.get("design_ref", f"DESIGN.md §4 {pid}")},
        "level_note": c["note"],
        "technique": c.get("technique", "Lean 4 theorems over an executable model; tie to /repo checked on every run by (a) translation of the core crate, LineReader and the closure-free token functions from the Rust source into Lean (tools/gen_core.py) with kernel-checked equations generated = model (Props/Tie*.lean), and (b) a differential correspondence check of model vs. real code (harness/)"),
    })
na = [{"property_id": pid, "reason": "no check built yet (planned in DESIGN.md §4); nothing is claimed for it"}
      for pid in ids if pid not in PROPS]
m = {
    "version": 1,
    "setup_cmd": "./check --setup",
    "hooks": {
        "guard": "flussab_verif",
        "enable": "RUSTFLAGS='--cfg flussab_verif' (no hook exists: every observed quantity is reachable from the public API)",
        "baseline_off_cmd": "cd /repo && cargo test --workspace --no-fail-fast --offline",
        "source_commits": HOOK_COMMITS,
        "add_only": True,
    },
    "engines": [{"name": n, "path": p, "serves_properties": sorted(pid for pid in PROPS if any(e == n for (e, _, _, _) in PROPS[pid]["engines"])), "kind_free_text": t}
                for (n, p, t) in ENGINES],
    "checks": checks,
    "notes": "Lean 4 proofs over an executable model (lean/), tied to /repo on every run by a differential harness (harness/, real code in-process) and translators (tools/gen_*.py). See DESIGN.md.",
    "not_applicable": na,
}
json.dump(m, open(os.path.join(ROOT, "MANIFEST.json"), "w"), indent=1)
print(f"{len(checks)} checks, {len(na)} not claimed")
