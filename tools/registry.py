"""Per-property configuration of ./check: theorem module, engines (name, n_quick, n_thorough, opt)."""

# engine -> (regex on the driver's branch tags that makes a case non-trivial, description)
ENGINE_RULES = {
    "aiger": (r"(items=([2-9]|[1-9][0-9])|gates=[1-9]|syms=[1-9]|cmt=1|fin=E:syn|fin=E:io)",
              "ASCII and binary AIGER: circuits from the abstract types through the crate's writers (all counts incl. "
              "0, latch reset forms, symbol kinds, UTF-8 names, comments, varint lengths 1-10), layout variants, "
              "mutations, arbitrary bytes, invalid UTF-8, huge declared counts, single-token corruptions, faults at "
              "random / every offset, line sources; streaming API, skip mode and whole-file parse(); 5 literal types; "
              "every case under 5-6 read schedules; non-trivial = several items / gates / symbols / comment or an error"),
    "btor2": (r"(lines=[1-9]|fin=E:syn|fin=E:io|valid=1)",
              "BTOR2 documents: every operator / constant form / sort / line kind through the public constructors and "
              "write_into, layout variants, keyword lengths around the 8-byte SWAR boundary, mutations, arbitrary "
              "bytes, single-token corruptions, faults at random / every offset, line sources, validator cases; every "
              "case under 5-6 read schedules; non-trivial = at least one line, an error outcome or a validator case"),
    "stream": (r"n=[1-9]",
               "CNF streams of 10^4..3*10^6 clauses generated on the fly (never materialised), chunk sizes "
               "1/64/4096/16384, read sizes 1/7/64/16384, optionally one 10^4..2*10^5-literal clause; the peak live "
               "heap is measured by a counting global allocator; every case distinct"),
    "cnf": (r"(clauses=[1-9]|fin=E:syn|fin=E:io|multiline=1|ok=1)",
            "DIMACS CNF/WCNF/GCNF + solver log: abstract values rendered through the layout grammar, the crate's own "
            "writers, mutations, arbitrary bytes, single-token corruptions, faults at random / every offset, line "
            "sources; every case runs under 5-6 read schedules x chunk sizes on the real parser; non-trivial = at "
            "least one clause, an error outcome, or a multi-line layout"),
    "renumber": (r"((folded|hashed|merged)=[1-9]|err=(dup|undef|cycle))",
                 "random AIGs (arbitrary numbering / gate order, constants and negations as inputs, shared and unused "
                 "gates, all sections) x 8 configs plus ill-formed variants (cycle, dangling, duplicate); non-trivial = "
                 "a gate was constant-folded or structurally hashed, or an error kind was produced"),
    "writer": (r"(coldops=[1-9]|err=1|panicked=1)",
               "random op histories on DeferredWriter over scheduled sinks; slice lengths aimed at the capacity "
               "boundary; non-trivial = a cold path / sink call happened or an error was parked"),
    "scan": (r"(ovf=1|fast=1|moved=[1-9]|run=[1-9])",
             "scanner x type x input x offset x buffered amount (random numerals around the type bounds, all "
             "terminators; with opt=exhaustive every string over {space,tab,CR,LF,'a','0'} up to length 4 (quick) / 6 "
             "(thorough) x offsets x patterns x buffered 0/all); non-trivial = overflow, fast path, or a non-empty run"),
    "comb": (None, "complete enumeration of combinator x input case x closure behaviour; every case distinct"),
    "reader": (r"(realign|shrink|panic)=[1-9]",
               "random op histories over random sources/schedules; non-trivial = the model took a realign, "
               "shrink or panic branch; distinct = distinct case lines"),
}

HOOK_COMMITS = []

# (name, path, description)
ENGINES = [
    ("aiger", "harness/src/eng_aiger.rs + gen_aiger.rs + lean/Driver/EngAiger.lean",
     "flussab-aiger ASCII/binary parsers and writers under many schedules vs. the Lean model vs. independent decoders"),
    ("btor2", "harness/src/eng_btor2.rs + gen_btor2.rs + lean/Driver/EngBtor2.lean",
     "flussab-btor2 parser/writer under many schedules vs. the View-level Lean model vs. independent tokenizer"),
    ("stream", "harness/src/eng_stream.rs + lean/Driver/EngStream.lean",
     "on-the-fly CNF streams parsed by the real streaming parser under a counting global allocator"),
    ("cnf", "harness/src/eng_cnf.rs + gen_cnf.rs + lean/Driver/EngCnf.lean",
     "flussab-cnf parsers/writers under many schedules vs. the View-level Lean parser models vs. independent lexer"),
    ("renumber", "harness/src/eng_renumber.rs + lean/Driver/EngRenumber.lean",
     "Renumber::renumber_aig on random and ill-formed AIGs vs. the Lean model vs. truth-table / simulation oracle"),
    ("writer", "harness/src/eng_writer.rs + lean/Driver/EngWriter.lean",
     "DeferredWriter op histories over scheduled sinks vs. the Lean model vs. a reference byte log"),
    ("scan", "harness/src/eng_scan.rs + lean/Driver/EngScan.lean",
     "flussab::text scanners on the real reader vs. the Lean model vs. arbitrary-precision / slice references"),
    ("comb", "harness/src/eng_comb.rs + lean/Driver/EngComb.lean",
     "complete enumeration of the combinator domain with counting closures, impl vs. Lean model"),
    ("reader", "harness/src/eng_reader.rs + lean/Driver/EngReader.lean",
     "random operation histories on DeferredReader over scheduled sources, impl vs. Lean model vs. Vec+cursor oracle"),
]

PROPS = {
    "C15": dict(
        module="Flussab.Props.C15", modules=["Flussab.Props.C15", "Flussab.Props.TieParsed"], engines=[("comb", 0, 0, "")], release=True, exhaustive=True,
        claim="Every clause of the property is a Lean theorem about the combinator model, for arbitrary value/error "
              "types and arbitrary closures ('runs iff' = invocation count). The model is tied to parser.rs by "
              "running all 58 points of the finite domain (combinator x input case x closure behaviour) on the real "
              "code with counting closures and on the model and comparing results and counts; an independent oracle "
              "in the harness restates the property on the implementation.",
        note="Trusted: Lean kernel, axioms propext/Quot.sound, the harness. Closures are modelled as pure functions; "
             "panicking closures are out of scope.",
        assumptions=["closures are modelled as pure functions plus an invocation count"]),
    "C02": dict(
        module="Flussab.Props.C02", modules=["Flussab.Props.C02", "Flussab.Props.TieReader"], engines=[("reader", 4000, 150000, ""), ("reader", 528, 1200, "scale")], release=True,
        claim="DeferredReader is modelled field for field (buffer, cursor, valid length, realign/shrink/grow, the "
              "retried read) over a source model with arbitrary read schedules. Theorems, for every history and "
              "schedule: each operation leaves the stream in front of the cursor unchanged except for the bytes "
              "advanced over (op_preserves_stream / history_preserves_stream: nothing lost, duplicated, reordered, "
              "invented; position = bytes advanced), the mark is stable across refills (mark_stable), requests fall "
              "short only at the real end (request_short_only_at_end, request_byte_exact), flags and the parked error "
              "are exact, pre-buffered BufReader bytes come first. The model is tied to deferred_reader.rs by running "
              "random histories (incl. part-consumed BufReaders, chunk sizes 1-16384, Interrupted, faults) on the real "
              "reader and on the model and comparing every observable after every op; a Vec+cursor oracle restates "
              "the property on the implementation.",
        note="Trusted: Lean kernel (axioms propext, Classical.choice, Quot.sound), the harness and its SchedSource, the "
             "std::io::Read contract, Cursor::chain order. Assumes chunk >= 1, position() not wrapped past 2^64 "
             "(mark_in_buf is modelled as the signed difference, equal to the wrapping arithmetic under that "
             "assumption). Vec capacity and the unsafe get_unchecked calls themselves are outside the model.",
        assumptions=["position() has not wrapped around 2^64", "chunk sizes >= 1",
                     "source obeys the std::io::Read contract (lying sources are C14's subject)"]),
    "C14": dict(
        module="Flussab.Props.C14", modules=["Flussab.Props.C14", "Flussab.Props.TieReader", "Flussab.Props.TieWriter"], engines=[("reader", 3000, 100000, "lies"), ("writer", 300, 4000, ""), ("reader", 528, 1200, "scale+lies"), ("writer", 480, 630, "scale")], release=True,
        claim="The index discipline every unsafe block of the reader relies on (pos_in_buf + valid_len <= buf.len, "
              "so buf()/get_unchecked/8-byte loads stay inside the buffer) is the invariant Reader.Ok, proved to "
              "hold after every call of the safe API for EVERY source - lying Ok(n) > slice included - and across "
              "caught panics (op_preserves_ok, history_preserves_ok); a panicking advance is a no-op "
              "(advance_panic_is_noop, the statement defect F14 broke); a lying read is caught before the window "
              "changes (lying_read_leaves_window); every exposed byte was read from the source (window_was_read). "
              "Writer: len <= capacity after every op for every sink, panicking sinks included "
              "(writer_len_le_capacity, writer_history_len_le_capacity), which is what copy_from_nonoverlapping, "
              "set_len and the in-place digit writer rely on. "
              "Tie: reader engine with over-long advances under catch_unwind and lying sources, writer engine with "
              "panicking sinks, debug and release.",
        note="Proof level for the model's index arithmetic only: that the compiled unsafe code has no UB given this "
             "discipline (machine-level memory safety) is outside Lean. Trusted: Lean kernel, harness.",
        assumptions=["chunk >= 1", "position() not wrapped"]),
    "C09": dict(
        module="Flussab.Props.C09", modules=["Flussab.Props.C09", "Flussab.Props.C09Parsers", "Flussab.Props.C09Btor2", "Flussab.Props.C09Aiger", "Flussab.Props.TieReader", "Flussab.Props.TieCnfToken", "Flussab.Props.TieCnfParser", "Flussab.Props.TieWcnfParser", "Flussab.Props.TieGcnfParser", "Flussab.Props.TieSatLog", "Flussab.Props.TieLineReader", "Flussab.Props.TieAigerToken", "Flussab.Props.TieBtor2Token", "Flussab.Props.TieBtor2Parser", "Flussab.Props.TieAigerHeader", "Flussab.Props.TieAigerNew", "Flussab.Props.TieAigerSections", "Flussab.Props.TieAigerBinSections", "Flussab.Props.TieAigerSymbols", "Flussab.Props.TieAigerParse"],
        engines=[("aiger", 1500, 50000, "ls"), ("reader", 4000, 150000, ""), ("cnf", 2500, 80000, "ls"), ("btor2", 1500, 50000, "ls"), ("reader", 528, 1200, "scale"), ("cnf", 270, 600, "scale"), ("btor2", 24, 120, "scale:ls"), ("aiger", 40, 300, "scale:ls")], release=True,
        claim="Reader layer proved for all histories and schedules: exactly one non-Interrupted read per refill "
              "(one_read_per_refill), no read when buffered data satisfies the request (no_read_if_satisfied), no "
              "call after EOF/error (no_read_after_end, never_called_after_end), reads are demand driven "
              "(reads_only_when_demanded: the last read was issued while the demanded byte was not buffered). "
              "Tie: reader engine compares read-call counts after every op; oracle counts productive reads.",
        note="Parser half: for the DIMACS family a theorem over the View-level models with the look-ahead ghost "
             "`peeked` (cnf_item_no_lookahead / cnf_header_no_lookahead / cnf_document_no_lookahead: when an item is "
             "handed out peeked <= pos + 1 and (peeked <= pos or end of input seen) - nothing beyond the completing "
             "newline was demanded); with reads_only_when_demanded this bounds what a line-by-line source is asked for. "
             "BTOR2 and AIGER engines: one line per read, delivered-byte count compared exactly with the model's "
             "prediction); BTOR2 look-ahead is a theorem too (btor2_item_no_lookahead, btor2_document_no_lookahead: "
             "peeked <= pos for lines ending with their newline, peeked <= pos + 1 with the cursor on the newline for "
             "lines ending in a comment); AIGER (Props/C09Aiger.lean): aiger_header/item/symbol_no_lookahead, "
             "aig_varint_no_lookahead (peeked <= pos when an item is returned, binary gates after the second varint). "
             "Trusted: Lean kernel, harness.",
        assumptions=["chunk >= 1"]),
    "C13": dict(
        module="Flussab.Props.C13", modules=["Flussab.Props.C13", "Flussab.Props.TieText"], engines=[("scan", 30000, 1500000, ""), ("scan", 565, 1430, "scale"), ("scan", 8000, 200000, "pad")], release=True,
        bv_decide_theorems=["fast_path_exact", "multi_eq_simple", "signed_multi_eq_simple", "signed_ascii_digits_multi_tied"],
        claim="Theorems generic in the integer type (signedness x width, so all 12 Rust types): ascii_digits and "
              "signed_ascii_digits return the offset past the longest digit run and the exact value iff "
              "representable, None otherwise (digits_exact, signed_digits_exact, via the sticky-flag loop invariant "
              "digitsLoop_spec); a lone '-' is not consumed; the _multi variants equal the simple ones for every "
              "buffer content and every amount of buffered data (multi_eq_simple, signed_multi_eq_simple). The 8-byte "
              "SWAR kernel is translated from text.rs on every run (tools/gen_swar.py) and proved correct for all "
              "2^64 words (Flussab.Swar.swar_c0..c8). Tie for the surrounding Rust: scan engine, all types, "
              "boundary numerals, all buffered amounts around the 8-byte threshold.",
        note="Axioms: propext, Classical.choice, Quot.sound, plus the per-call bv_decide native axioms "
             "(Lean.ofReduceBool on the verified LRAT checker) for the kernel lemmas and the three theorems that use "
             "them - accepted, stated in DESIGN.md §6. Trusted: gen_swar.py translator (validated by running the "
             "generated definition against the Rust function in the scan engine), harness.",
        trusted=["tools/gen_swar.py (Rust -> BitVec translator)", "bv_decide: cadical + verified LRAT checker run natively"],
        assumptions=["usize/isize are 64 bit"]),
    "C16": dict(
        module="Flussab.Props.C16", modules=["Flussab.Props.C16", "Flussab.Props.TieText"], bv_decide_theorems=["signed_ascii_digits_multi_tied"], engines=[("scan", 0, 0, "exhaustive"), ("scan", 20000, 400000, ""), ("scan", 565, 1430, "scale"), ("scan", 8000, 200000, "follow")], release=True,
        exhaustive=False,
        claim="Closed-form theorems for all inputs, offsets and patterns (no length bound): tabs_or_spaces, newline "
              "(LF, CRLF, lone CR, CR at end), next_newline, fixed (empty / cut / longer-than-input pattern) return "
              "exactly the documented offset (…_spec), never consume (scanners_do_not_consume), and look at no byte "
              "beyond the one that decides (the view after each scanner is `demand j` for the explicit j; fixed stops "
              "at the first mismatch). demand_on_reader lifts this to every concrete reader and schedule. Tie: scan "
              "engine - complete enumeration of short strings plus random longer ones, comparing offset, position and "
              "the source's delivered-byte counter.",
        note="Trusted: Lean kernel, harness. The bytes-pulled bound combines the look-ahead ghost with C09's "
             "reads_only_when_demanded.",
        assumptions=[]),
    "C12": dict(
        module="Flussab.Props.C12", modules=["Flussab.Props.C12", "Flussab.Props.C12Stack"], engines=[("renumber", 2000, 40000, ""), ("renumber", 120, 300, "scale")], release=True,
        claim="Renumber::renumber_aig is modelled closely (visiting order, lit_map with polarity, input sort, "
              "const-fold order, structural hashing, code allocation, error kinds, mid-stack cycle test). Theorems for "
              "all AIGs, all 8 configs and any fuel: renumber_order (consecutive numbering, larger input first and "
              "below the gate, ranges), renumber_sound (every root and every lit_map entry computes the same function "
              "under every valuation consistent with the old graph), renumber_errors* (duplicate / undefined / cycle "
              "never yield Ok, the reported literal is genuinely at fault, Ok iff well-formed), renumber_terminates / "
              "renumberAig_never_out_of_fuel, midstack_cycle_check. Tie: renumber engine compares OrderedAig, sorted "
              "lit_map and error kind; oracle = exhaustive truth tables (<= 6 vars) / 64-bit random simulation + order "
              "predicate + deep 10^5..10^6-gate chain and cycle.",
        note="The explicit-stack loop of Renumber::transfer (stack of Continuation frames, State::{Transfer, Input0, "
             "Input1, Return}, mid-stack cycle test) is modelled literally as a small-step machine (Model/AigStack.lean) "
             "and PROVED equal to the recursive model (Props/C12Stack.lean: renumberStack_refines, stack_transfer_"
             "simulates for any state incl. cyclic/undefined inputs, renumberStack_never_out_of_fuel with the explicit "
             "bound 14*gates+6 iterations per call, and the C12 theorems restated for the stack machine); the driver "
             "executes the stack machine, so the correspondence compares the Rust loop with its literal mirror. "
             "Trusted: Lean kernel, harness. Modelled not verified: hash maps are association lists; truncating L::from_code casts "
             "of narrow literal types, symbols and comment are not modelled. Ill-formedness only in gates unreachable "
             "under trim=true is not an error (code, model and oracle agree).",
        assumptions=["literal codes fit the literal type"]),
    "C11": dict(
        module="Flussab.Props.C11", modules=["Flussab.Props.C11", "Flussab.Props.TieWriter", "Flussab.Props.TieDimacsWrite", "Flussab.Props.TieAigerWrite", "Flussab.Props.TieAigerWriteDoc", "Flussab.Props.TieBtor2Write"], engines=[("writer", 500, 8000, ""), ("writer", 480, 630, "scale")], release=True,
        claim="DeferredWriter (fast path, cold path with split/fill/flush/write-through, flush, check_io_error, Drop "
              "with the panicked flag, buf_write_ptr+advance_unchecked, write::text::ascii_digits with itoap MAX_LEN) "
              "is modelled over a sink with arbitrary schedules and std's write_all loop. Theorems for all histories: "
              "good_sink_exact (a never-failing sink receives exactly buffered ++ written, in order, once, after flush "
              "or drop; flush returns Ok), bad_sink_selection (with any failing sink what the sink received plus what "
              "is buffered is a sub-sequence of the written stream), writes_never_fail, no_sink_call_while_parked, "
              "error_reported_once, digits_canonical + digits_fit (canonical decimal text, never longer than MAX_LEN). "
              "Tie: writer engine compares the sink call log (length offered/accepted per call), results and the "
              "sunk bytes; oracle = reference Vec of everything written.",
        note="Trusted: Lean kernel, harness, std::io::Write::write_all's documented loop, Vec::with_capacity giving "
             "exactly the requested capacity (the call-size log depends on it). itoap's digit generation is modelled "
             "as canonical decimal text and validated by the engine at MIN/-1/0/10^k/MAX for all 12 types. Sinks "
             "that panic are outside C11's domain (the buffer is then re-sent by a later flush, as in std's BufWriter); "
             "they are covered by C14's length invariant only.",
        assumptions=["the sink obeys the Write contract (accepts at most the slice length)"]),
    "C01": dict(
        module="Flussab.Props.C01", modules=["Flussab.Props.C01", "Flussab.Props.C01Btor2", "Flussab.Props.TieReader", "Flussab.Props.TieText", "Flussab.Props.TieCnfToken", "Flussab.Props.TieCnfParser", "Flussab.Props.TieWcnfParser", "Flussab.Props.TieGcnfParser", "Flussab.Props.TieSatLog", "Flussab.Props.TieLineReader", "Flussab.Props.TieAigerToken", "Flussab.Props.TieBtor2Token", "Flussab.Props.TieBtor2Parser", "Flussab.Props.TieAigerHeader", "Flussab.Props.TieAigerNew", "Flussab.Props.TieAigerSections", "Flussab.Props.TieAigerBinSections", "Flussab.Props.TieAigerSymbols", "Flussab.Props.TieAigerParse"],
        engines=[("aiger", 3000, 150000, "rt+layout+mutate+arbitrary+utf8+huge"), ("cnf", 4000, 200000, "mix"), ("btor2", 3000, 150000, "rt+layout+kinds+mutate+arbitrary+kw"), ("reader", 1500, 50000, ""), ("btor2", 160, 640, "scale"), ("cnf", 270, 2600, "scale"), ("reader", 528, 1200, "scale"), ("aiger", 40, 300, "scale"), ("cnf", 900, 2000, "dict"), ("btor2", 900, 2000, "dict"), ("aiger", 900, 2000, "dict")], release=True,
        audit_observables=True,
        bv_decide_theorems=["signed_ascii_digits_multi_tied", "multi_scanners_buffer_independent", "btor2_lowercase_kernel", "btor2_lowercase_kernel_no_panic",
                            "btor2_lowercase_eq_spec", "btor2_lowercase_buffer_independent", "btor2_lowercase_eq_spec_const"],
        claim="Where byte arrival is visible it is a theorem: any two DeferredReaders over the same stream - "
              "arbitrary different schedules (short reads, Interrupted), chunk sizes, buffer layouts - answer "
              "request_byte_at_offset / advance / buf()[..n] / position / mark / is_at_end / io_error / check_io_error "
              "identically and stay related (…_schedule_independent, via the refinement Rel to the abstract View); "
              "Interrupted is invisible; the _multi scanners do not depend on the buffered amount. Above that the "
              "parser models are functions of the View by construction; that the Rust parsers are such functions is "
              "checked by running every input under 5-6 schedules x chunk sizes (1-byte reads, chunk 1/2/8 with "
              "Interrupted, random, two-piece splits) and comparing with the one model answer.",
        note="Parser level: DIMACS family, solver log and BTOR2 (incl. btor2_lowercase_eq_spec: the SWAR keyword "
             "scanner, kernel regenerated from token.rs, equals the reference run for every buffered amount) are "
             "modelled and tied; AIGER ASCII/binary parsers (remaining_file_content's buf_len loop: readToEnd_spec) are "
             "modelled and tied by the aiger engine. Trusted: Lean kernel "
             "(+ bv_decide axioms through C13), harness, audit that format code uses only the modelled reader API.",
        assumptions=["chunk >= 1", "position() not wrapped"]),
    "C10": dict(
        module="Flussab.Props.C10", modules=["Flussab.Props.C10", "Flussab.Props.TieReader"], engines=[("stream", 12, 60, ""), ("reader", 1500, 40000, ""), ("reader", 528, 1200, "scale"), ("stream", 40, 150, "scale")], release=True,
        claim="The logic part is a theorem about the reader's bookkeeping: through ANY history whose requests demand "
              "at most K bytes of look-ahead and whose chunk size stays <= C, the buffer length (Vec::len set by "
              "resize/truncate) stays <= 3*C + K (buf_len_bounded), independent of the number of bytes streamed - "
              "from the realign threshold 2*chunk, target_end = pos + valid + chunk, and refills only when the demand "
              "is unsatisfied. The heap itself is measured: streams of up to 3*10^6 clauses generated on the fly, "
              "peak live heap <= 8*chunk + 4*max_item + 64 KiB for every chunk/read size, incl. one huge clause.",
        note="Partial by nature: Vec capacity growth policy, allocator overhead and the parsers' own vectors "
             "(lit_buf etc., cleared per item) are outside the Lean model and only measured. The stream engine's "
             "model side merely predicts the item count. Trusted: Lean kernel, harness, counting allocator.",
        assumptions=["chunk >= 1", "honest source"]),
    "C06": dict(
        module="Flussab.Props.C06", modules=["Flussab.Props.C06", "Flussab.Props.C06Cnf", "Flussab.Props.C06Aiger", "Flussab.Props.C06Btor2", "Flussab.Props.TieCnfToken", "Flussab.Props.TieCnfParser", "Flussab.Props.TieWcnfParser", "Flussab.Props.TieGcnfParser", "Flussab.Props.TieSatLog", "Flussab.Props.TieLineReader", "Flussab.Props.TieAigerToken", "Flussab.Props.TieBtor2Token", "Flussab.Props.TieBtor2Parser", "Flussab.Props.TieAigerHeader", "Flussab.Props.TieAigerNew", "Flussab.Props.TieAigerSections", "Flussab.Props.TieAigerBinSections", "Flussab.Props.TieAigerSymbols", "Flussab.Props.TieAigerParse"], engines=[("aiger", 4000, 150000, "rt+layout+mutate+huge+corrupt"), ("cnf", 6000, 200000, "layout+rt+mutate+arbitrary+corrupt+corrupt+log+logmut"), ("cnf", 270, 600, "scale"), ("aiger", 40, 300, "scale:valid")], release=True,
        bv_decide_theorems=[],
        claim="Numbers: every number token is produced by the decimal scanners, which return the exact decimal value "
              "of the digit run or None (C13) - restated at token level (unsigned_token_exact, signed_token_exact: a "
              "returned value equals +-decVal of the digits and fits the type, never a wrapped value); the truncating "
              "from_dimacs cast is the identity within MAX_DIMACS (from_dimacs_lossless). Limits (literals within the "
              "declared variable count, clause count, groups) are invariants of the parser models, added as theorems "
              "with the parser-level proof files; until then they are carried by the engine: every accepted input is "
              "re-read by an independent whitespace tokenizer with arbitrary-precision numerals and the limits are "
              "recomputed from the header, for all 5 literal types and both ignore_header settings.",
        note="AIGER limits are theorems (Props/C06Aiger.lean: aag/aig_header_sane, aiger_lit_within, *_latch_within, "
             "aag_gate_within, aig_delta_le_code, aiger_section_exhausted/count, aag/aig_parse_sizes, "
             "aiger_justice_sizes, aiger_symbol_index_within, aig_varint_exact, aiger_uint_exact). DIMACS limits are theorems "
             "(Props/C06Cnf.lean: cnf_lits_within, cnf_clean_end_count, gcnf_group_within, cnf_header_within, for "
             "every accepted byte string, corollaries of cnf_parsed_is_wf). BTOR2 (Props/C06Btor2.lean): "
             "btor2_uint/positive_int/nonnegative_int_exact (a returned number is the decimal value of the digits "
             "consumed, no leading zero, < 2^64), btor2_accepted_is_canonical (an accepted line is, up to leading "
             "blanks, exactly the canonical text of the returned Line). Trusted: Lean kernel, harness, the independent reference lexer.",
        assumptions=["64-bit usize/isize"]),
    "C03": dict(
        module="Flussab.Props.C03Cnf", modules=["Flussab.Props.C03Aiger", "Flussab.Props.C03AigerConverse", "Flussab.Props.C03Cnf", "Flussab.Props.C03Btor2", "Flussab.Props.TieDimacsWrite", "Flussab.Props.TieAigerWrite", "Flussab.Props.TieAigerWriteDoc", "Flussab.Props.TieBtor2Write", "Flussab.Props.TieCnfToken", "Flussab.Props.TieCnfParser", "Flussab.Props.TieWcnfParser", "Flussab.Props.TieGcnfParser", "Flussab.Props.TieSatLog", "Flussab.Props.TieLineReader", "Flussab.Props.TieAigerToken", "Flussab.Props.TieBtor2Token", "Flussab.Props.TieBtor2Parser", "Flussab.Props.TieAigerHeader", "Flussab.Props.TieAigerNew", "Flussab.Props.TieAigerSections", "Flussab.Props.TieAigerBinSections", "Flussab.Props.TieAigerSymbols", "Flussab.Props.TieAigerParse"],
        engines=[("aiger", 3000, 120000, "rt+layout"), ("cnf", 3000, 120000, "rt+layout"), ("btor2", 3000, 120000, "rt+rtbad+layout+kinds+valid"), ("btor2", 0, 0, "validx"), ("btor2", 96, 400, "scale:just_rt+sym+cmt+const+num+lines+ws_valid+valid"), ("cnf", 270, 600, "scale"), ("aiger", 40, 300, "scale:valid")], release=True,
        claim="Theorems over the parser and writer models: cnf_roundtrip (CNF/WCNF/GCNF, every literal type, both "
              "ignore_header settings: parse(write(h, cs)) = (h, cs, clean end) for every value in the explicit "
              "decidable domain WF), cnf_parsed_is_wf + cnf_parse_write_parse (whatever is accepted is in WF, hence "
              "parse o write o parse = parse); btor2_roundtrip (every line kind, exact cursor), "
              "btor2_document_roundtrip, btor2_parsed_is_wf + btor2_parse_write_parse (converse), btor2_const_domain, "
              "keyword tables regenerated from the source. Tie: values "
              "built from the repo's own types and writers, parsed back and compared (x= expected value), and "
              "parse(write(parse(t))) = parse(t) on every accepted text.",
        note="AIGER: aag_roundtrip and aig_roundtrip are proved in general over explicit domains (AigDomain / "
             "OrdDomain = DESIGN's WFaig / WFord plus bits <= 64 and file shorter than usize::MAX; the binary writer's "
             "assert! and index never fire), with aig_varint_roundtrip (lengths 1-10), header field trimming (5-9 "
             "fields), latch reset forms, symbols, UTF-8 names and comments as sub-lemmas. The AIGER converse "
             "(Props/C03AigerConverse.lean): aag/aig_parsed_is_domain (whatever parse() accepts, for 1 <= bits <= 64 "
             "and input shorter than usize::MAX - 1, lies in the writer's domain), aag/aig_parse_write_parse "
             "(parse o write o parse = parse, whole output consumed), aag/aig_write_length (the writer emits at "
             "most one byte more than the parser consumed; tight), and refutations of the unrestricted statements "
             "(bits = 0; a 2^64-byte comment exists in the model only). Texts shorter than 2^64-1 bytes, "
             "non-failing source. Trusted: Lean kernel, harness, tools/gen_tables.py.",
        trusted=["tools/gen_tables.py (keyword / name tables translator)"],
        assumptions=["document shorter than 2^64 - 1 bytes"]),
    "C04": dict(
        module="Flussab.Props.C04", modules=["Flussab.Props.C04", "Flussab.Props.C04Prefix", "Flussab.Props.C04Btor2", "Flussab.Props.C04Aiger", "Flussab.Props.C04AigerPrefix", "Flussab.Props.TieCnfToken", "Flussab.Props.TieCnfParser", "Flussab.Props.TieWcnfParser", "Flussab.Props.TieGcnfParser", "Flussab.Props.TieSatLog", "Flussab.Props.TieLineReader", "Flussab.Props.TieAigerToken", "Flussab.Props.TieBtor2Token", "Flussab.Props.TieBtor2Parser", "Flussab.Props.TieAigerHeader", "Flussab.Props.TieAigerNew", "Flussab.Props.TieAigerSections", "Flussab.Props.TieAigerBinSections", "Flussab.Props.TieAigerSymbols", "Flussab.Props.TieAigerParse"],
        engines=[("aiger", 2000, 60000, "fault"), ("aiger", 2, 300, "sweep"), ("cnf", 3000, 100000, "fault+logfault"), ("cnf", 25, 1500, "sweep"), ("btor2", 2000, 60000, "fault"), ("btor2", 15, 600, "sweep"), ("btor2", 24, 120, "scale:fault"), ("cnf", 270, 600, "scale"), ("aiger", 40, 300, "scale:fault")], release=True,
        claim="Theorems for every byte string and every fault offset (the view delivers b then fails): "
              "cnf_fault_never_clean_end / log_fault_never_ok / btor2_fault_final (a failing source is never reported "
              "as completely parsed), cnf_fault_syntax_only_before_end / btor2_fault_syntax_before_end (a syntax error "
              "is only reported while the reader has not hit the failure point: never 'because the data ended where "
              "the source failed'), io_error_only_from_fault; from the invariant 'fault and sawEnd imply the error is "
              "parked' carried through every parser function. Tie + item-prefix clause: engines with a fault at "
              "random and at EVERY offset of generated documents, comparing the final error kind and the items with "
              "the fault-free run of the real parser.",
        note="The clause 'items before the error equal the fault-free run's items' is a theorem for BTOR2 "
             "(btor2_fault_prefix / btor2_fault_outcome: the lines handed out from b-then-failure are a prefix of "
             "the fault-free run over any extension b ++ more) and for DIMACS (Props/C04Prefix.lean: cnf_fault_prefix - "
             "items are a prefix and a returned header is the same header; cnf_fault_syntax_same / "
             "log_fault_syntax_same - a syntax error of the failing run is the very syntax error, same location and "
             "items, of the fault-free run; by a prefix-simulation of every parser function). AIGER (Props/C04Aiger.lean): aiger_fault_io, aag/aig_parse_fault, aig_gate_fault, "
             "aag/aig_parse_not_ok_on_fault (with a failing source parse() never returns Ok); Props/C04AigerPrefix.lean: "
             "aiger_fault_prefix / aiger_fault_syntax_same (streaming interface, ASCII and binary, stream and skip "
             "modes: items handed out from b-then-failure are a prefix of the fault-free run over any b ++ more, the "
             "run ends in io or a syntax error, and a syntax error is the very same error after the same items), "
             "aiger_parse_fault_prefix / aiger_parse_fault_syntax_same / aag|aig_parse_fault_syntax_same for parse(), "
             "aiger_item_fault_same per section reader (incl. binary next_and_gate); stated over Model/AigerRun.lean, "
             "the model-level twin of the driver's streaming loop (the driver checks on every aiger case that both "
             "give the same observation). "
             "Trusted: Lean kernel, harness.",
        assumptions=["input shorter than 2^63 bytes"]),
    "C05": dict(
        module="Flussab.Props.C05", modules=["Flussab.Props.C05Aiger", "Flussab.Props.C05", "Flussab.Props.C05Btor2", "Flussab.Props.TieCnfToken", "Flussab.Props.TieCnfParser", "Flussab.Props.TieWcnfParser", "Flussab.Props.TieGcnfParser", "Flussab.Props.TieSatLog", "Flussab.Props.TieLineReader", "Flussab.Props.TieAigerToken", "Flussab.Props.TieBtor2Token", "Flussab.Props.TieBtor2Parser", "Flussab.Props.TieAigerHeader", "Flussab.Props.TieAigerNew", "Flussab.Props.TieAigerSections", "Flussab.Props.TieAigerBinSections", "Flussab.Props.TieAigerSymbols", "Flussab.Props.TieAigerParse"],
        engines=[("aiger", 4000, 150000, "mutate+arbitrary+utf8+huge+corrupt"), ("cnf", 5000, 250000, "mutate+arbitrary+corrupt+logmut+layout"), ("btor2", 4000, 150000, "mutate+arbitrary+corrupt+kw+declared"), ("btor2", 160, 640, "scale"), ("cnf", 270, 2600, "scale"), ("aiger", 40, 300, "scale"), ("cnf", 900, 2000, "dict"), ("btor2", 900, 2000, "dict"), ("aiger", 900, 2000, "dict")],
        release=True,
        claim="Every Rust panic site is an explicit value in the models (advance / slice beyond scanned data, column "
              "underflow, from_utf8().unwrap(), line_at_offset overflow, NonZeroU64::new(0).unwrap(), loop fuel). "
              "Theorems for EVERY byte string and both source kinds: cnf_new_no_panic, cnf_next_clause_no_panic, "
              "log_no_panic, cnf_parse_all_total, btor2_tokens_no_panic, btor2_next_line_no_panic, "
              "btor2_parse_no_panic - never a panic, never fuel exhaustion (each loop iteration consumes a byte), so "
              "with Lean's totality every parse terminates with items / clean end / io / syntax error; "
              "parser_buffers_bounded (a clause's literal list is no longer than the bytes consumed for it). Tie: "
              "engines on mutated / arbitrary / corrupted inputs, all literal types, debug AND release builds, each "
              "call under catch_unwind; bounded memory measured by the counting allocator (peak <= 64*len + 1 MiB).",
        note="Heap size, native stack depth and wall time are measured, not modelled. AIGER: aiger_new/next/symbol/"
             "comment_no_panic, aag_parse_no_panic and aig_parse_no_panic / aig_gate_no_panic (whole ASCII and binary "
             "parse(), every entry point, all 5 literal types, failing sources; the binary and-gate block via a "
             "masked ghost input) are proved. "
             "Hypothesis: input shorter than 2^63 bytes (so line_at_offset cannot overflow). Trusted: Lean kernel, "
             "harness.",
        assumptions=["input shorter than 2^63 bytes"]),
    "C07": dict(
        module="Flussab.Props.C07", modules=["Flussab.Props.C07", "Flussab.Props.TieCnfToken", "Flussab.Props.TieCnfParser", "Flussab.Props.TieWcnfParser", "Flussab.Props.TieGcnfParser", "Flussab.Props.TieSatLog", "Flussab.Props.TieLineReader"], engines=[("cnf", 5000, 250000, "layout+log+rt"), ("cnf", 270, 600, "scale")], release=True,
        claim="The layout grammar is formalised as data (Spec/Layout.lean: blanks/tabs, LF/CRLF, comment and blank "
              "lines before the header / between clauses / between the lines of a clause, clauses split over lines, "
              "leading zeros, terminator spellings, missing final newline, trailing junk; Spec/LogLayout.lean for "
              "solver logs). Theorems: cnf_parse_render - for EVERY layout of EVERY document in the domain WF, all "
              "three formats, all literal types, both ignore_header settings, parseAll (render l doc) = doc with a "
              "clean end; cnf_layout_independent; log_parse_render; render_canonical (the canonical layout is what the "
              "writers emit). Tie: the harness's independent generator of the same grammar renders abstract values; "
              "parsed result must equal the value (x=) on the real parser and on the model.",
        note="One accepted text is outside the log grammar: a value-line literal directly followed by the line end. "
             "Documents shorter than 2^64-1 bytes, non-failing source. Trusted: Lean kernel, harness (its layout "
             "generator is independent of Spec/Layout.lean).",
        assumptions=["document shorter than 2^64 - 1 bytes"]),
    "C08": dict(
        module="Flussab.Props.C08", modules=["Flussab.Props.C08", "Flussab.Props.C08Btor2", "Flussab.Props.C08Aiger", "Flussab.Props.C08Btor2Catalogue", "Flussab.Props.C08CnfCatalogue", "Flussab.Props.TieCnfToken", "Flussab.Props.TieCnfParser", "Flussab.Props.TieWcnfParser", "Flussab.Props.TieGcnfParser", "Flussab.Props.TieSatLog", "Flussab.Props.TieLineReader", "Flussab.Props.TieAigerToken", "Flussab.Props.TieBtor2Token", "Flussab.Props.TieBtor2Parser", "Flussab.Props.TieAigerHeader", "Flussab.Props.TieAigerNew", "Flussab.Props.TieAigerSections", "Flussab.Props.TieAigerBinSections", "Flussab.Props.TieAigerSymbols", "Flussab.Props.TieAigerParse"],
        engines=[("aiger", 4000, 150000, "corrupt+mutate+arbitrary+utf8"), ("cnf", 5000, 250000, "corrupt+mutate+arbitrary+logmut"), ("btor2", 4000, 150000, "corrupt+mutate+arbitrary"), ("btor2", 112, 480, "scale:ws_nl+ws_mix+just_err+num+sym+cmt+const+lines+ls"), ("cnf", 270, 600, "scale"), ("aiger", 40, 300, "scale:err"), ("cnf", 900, 2000, "dict"), ("btor2", 900, 2000, "dict"), ("aiger", 900, 2000, "dict")], release=True,
        claim="Range, for every input and both source kinds: cnf_error_in_range, log_error_in_range, "
              "btor2_error_in_range - a reported (line, col) satisfies 1 <= line <= nlines+1 and 1 <= col <= "
              "lineLen(line)+1 (lines as the property counts them), from the invariant 'line = 1 + newlines before "
              "line_start, line_start follows a newline or is 0 or the end'. Exact location per error class: "
              "unexpected_at_cursor, range_error_at_token_start, literal_error_at_mark, exceeds_var_count_at_mark, "
              "btor2_number_error_at_token_start. The catalogue clause (corrupt one known token => error on that "
              "token) is evaluated on the implementation: documents rendered with known token spans (plain and full "
              "layout), one token replaced (garbage, out-of-range, overflowing, wrap-class numeral), reported "
              "position must lie on the token, under every schedule.",
        note="The catalogue clause is a theorem for the numeric-overflow class at document level: "
             "btor2_overflow_error_on_token(_strict) and cnf_overflow_error_on_token (CNF/WCNF/GCNF, every literal "
             "type, CRLF included) - replace an all-digit token of an accepted document by a digit string >= 2^64; if "
             "the result is rejected the error is on the token's line and its column on the token (proved by a "
             "relational WP calculus: prefix determinism inside a line + position independence; no side condition - "
             "replacements inside comments, symbols, decimal/hex constants are accepted again). The other catalogue "
             "classes (garbage, keywords, wrap-class numerals) are evaluated on the implementation. AIGER "
             "(Props/C08Aiger.lean): aiger_error_in_range, aag_parse_error_in_range; for binary files the and-gate "
             "block is not text - a varint byte may be 0x0A - and is the continuation of the line on which it starts: "
             "aig_gate/aig_parse_error_in_range state the range over the input with the consumed block bytes masked "
             "(mask_facts); the literal newline-split reading of the property is false there (counter-example in the "
             "file) and the engine oracle uses the same block-as-one-line reading (DESIGN 4 C08). "
             "Trusted: Lean kernel, harness.",
        assumptions=["input shorter than 2^63 bytes"]),
}
