"""Per-property configuration of ./check: theorem module, engines (name, n_quick, n_thorough, opt)."""

# engine -> (regex on the driver's branch tags that makes a case non-trivial, description)
ENGINE_RULES = {
    "comb": (None, "complete enumeration of combinator x input case x closure behaviour; every case distinct"),
    "reader": (r"(realign|shrink|panic)=[1-9]",
               "random op histories over random sources/schedules; non-trivial = the model took a realign, "
               "shrink or panic branch; distinct = distinct case lines"),
}

HOOK_COMMITS = []

# (name, path, description)
ENGINES = [
    ("comb", "harness/src/eng_comb.rs + lean/Driver/EngComb.lean",
     "complete enumeration of the combinator domain with counting closures, impl vs. Lean model"),
    ("reader", "harness/src/eng_reader.rs + lean/Driver/EngReader.lean",
     "random operation histories on DeferredReader over scheduled sources, impl vs. Lean model vs. Vec+cursor oracle"),
]

PROPS = {
    "C15": dict(
        module="Flussab.Props.C15", engines=[("comb", 0, 0, "")], exhaustive=True,
        claim="Every clause of the property is a Lean theorem about the combinator model, for arbitrary value/error "
              "types and arbitrary closures ('runs iff' = invocation count). The model is tied to parser.rs by "
              "running all 58 points of the finite domain (combinator x input case x closure behaviour) on the real "
              "code with counting closures and on the model and comparing results and counts; an independent oracle "
              "in the harness restates the property on the implementation.",
        note="Trusted: Lean kernel, axioms propext/Quot.sound, the harness. Closures are modelled as pure functions; "
             "panicking closures are out of scope.",
        assumptions=["closures are modelled as pure functions plus an invocation count"]),
    "C02": dict(
        module="Flussab.Props.C02", engines=[("reader", 4000, 150000, "")], release=True,
        claim="DeferredReader is modelled field for field (buffer, cursor, valid length, realign/shrink/grow, the "
              "retried read) over a source model with arbitrary read schedules. Theorems, for every history and "
              "schedule: each operation leaves the stream in front of the cursor unchanged except for the bytes "
              "advanced over (op_preserves_stream / history_preserves_stream: nothing lost, duplicated, reordered, "
              "invented; position = bytes advanced), the mark is stable across refills (mark_stable), requests fall "
              "short only at the real end (request_short_only_at_end, request_byte_exact), flags and the parked error "
              "are exact, pre-buffered BufReader bytes come first. The model is tied to deferred_reader.rs by running "
              "random histories (incl. part-consumed BufReaders, chunk sizes 1-16384, Interrupted, faults) on the real "
              "reader and on the model and comparing every observable after every op; a Vec+cursor oracle restates "
              "the property on the implementation.",
        note="Trusted: Lean kernel (axioms propext, Classical.choice, Quot.sound), the harness and its SchedSource, the "
             "std::io::Read contract, Cursor::chain order. Assumes chunk >= 1, position() not wrapped past 2^64 "
             "(mark_in_buf is modelled as the signed difference, equal to the wrapping arithmetic under that "
             "assumption). Vec capacity and the unsafe get_unchecked calls themselves are outside the model.",
        assumptions=["position() has not wrapped around 2^64", "chunk sizes >= 1",
                     "source obeys the std::io::Read contract (lying sources are C14's subject)"]),
}
