"""Per-property configuration of ./check: theorem module, engines (name, n_quick, n_thorough, opt)."""

# engine -> (regex on the driver's branch tags that makes a case non-trivial, description)
ENGINE_RULES = {
    "comb": (None, "complete enumeration of combinator x input case x closure behaviour; every case distinct"),
    "reader": (r"(realign|shrink|panic)=[1-9]",
               "random op histories over random sources/schedules; non-trivial = the model took a realign, "
               "shrink or panic branch; distinct = distinct case lines"),
}

HOOK_COMMITS = []

# (name, path, description)
ENGINES = [
    ("comb", "harness/src/eng_comb.rs + lean/Driver/EngComb.lean",
     "complete enumeration of the combinator domain with counting closures, impl vs. Lean model"),
    ("reader", "harness/src/eng_reader.rs + lean/Driver/EngReader.lean",
     "random operation histories on DeferredReader over scheduled sources, impl vs. Lean model vs. Vec+cursor oracle"),
]

PROPS = {
    "C15": dict(
        module="Flussab.Props.C15", engines=[("comb", 0, 0, "")], exhaustive=True,
        claim="Every clause of the property is a Lean theorem about the combinator model, for arbitrary value/error "
              "types and arbitrary closures ('runs iff' = invocation count). The model is tied to parser.rs by "
              "running all 58 points of the finite domain (combinator x input case x closure behaviour) on the real "
              "code with counting closures and on the model and comparing results and counts; an independent oracle "
              "in the harness restates the property on the implementation.",
        note="Trusted: Lean kernel, axioms propext/Quot.sound, the harness. Closures are modelled as pure functions; "
             "panicking closures are out of scope.",
        assumptions=["closures are modelled as pure functions plus an invocation count"]),
}
