"""Per-property configuration of ./check: theorem module, engines (name, n_quick, n_thorough, opt)."""

# engine -> (regex on the driver's branch tags that makes a case non-trivial, description)
ENGINE_RULES = {
    "comb": (None, "complete enumeration of combinator x input case x closure behaviour; every case distinct"),
    "reader": (r"(realign|shrink|panic)=[1-9]",
               "random op histories over random sources/schedules; non-trivial = the model took a realign, "
               "shrink or panic branch; distinct = distinct case lines"),
}

HOOK_COMMITS = []

# (name, path, description)
ENGINES = [
    ("comb", "harness/src/eng_comb.rs + lean/Driver/EngComb.lean",
     "complete enumeration of the combinator domain with counting closures, impl vs. Lean model"),
    ("reader", "harness/src/eng_reader.rs + lean/Driver/EngReader.lean",
     "random operation histories on DeferredReader over scheduled sources, impl vs. Lean model vs. Vec+cursor oracle"),
]

PROPS = {
    "C15": dict(
        module="Flussab.Props.C15", engines=[("comb", 0, 0, "")], exhaustive=True,
        claim="Every clause of the property is a Lean theorem about the combinator model, for arbitrary value/error "
              "types and arbitrary closures ('runs iff' = invocation count). The model is tied to parser.rs by "
              "running all 58 points of the finite domain (combinator x input case x closure behaviour) on the real "
              "code with counting closures and on the model and comparing results and counts; an independent oracle "
              "in the harness restates the property on the implementation.",
        note="Trusted: Lean kernel, axioms propext/Quot.sound, the harness. Closures are modelled as pure functions; "
             "panicking closures are out of scope.",
        assumptions=["closures are modelled as pure functions plus an invocation count"]),
    "C02": dict(
        module="Flussab.Props.C02", engines=[("reader", 4000, 150000, "")], release=True,
        claim="DeferredReader is modelled field for field (buffer, cursor, valid length, realign/shrink/grow, the "
              "retried read) over a source model with arbitrary read schedules. Theorems, for every history and "
              "schedule: each operation leaves the stream in front of the cursor unchanged except for the bytes "
              "advanced over (op_preserves_stream / history_preserves_stream: nothing lost, duplicated, reordered, "
              "invented; position = bytes advanced), the mark is stable across refills (mark_stable), requests fall "
              "short only at the real end (request_short_only_at_end, request_byte_exact), flags and the parked error "
              "are exact, pre-buffered BufReader bytes come first. The model is tied to deferred_reader.rs by running "
              "random histories (incl. part-consumed BufReaders, chunk sizes 1-16384, Interrupted, faults) on the real "
              "reader and on the model and comparing every observable after every op; a Vec+cursor oracle restates "
              "the property on the implementation.",
        note="Trusted: Lean kernel (axioms propext, Classical.choice, Quot.sound), the harness and its SchedSource, the "
             "std::io::Read contract, Cursor::chain order. Assumes chunk >= 1, position() not wrapped past 2^64 "
             "(mark_in_buf is modelled as the signed difference, equal to the wrapping arithmetic under that "
             "assumption). Vec capacity and the unsafe get_unchecked calls themselves are outside the model.",
        assumptions=["position() has not wrapped around 2^64", "chunk sizes >= 1",
                     "source obeys the std::io::Read contract (lying sources are C14's subject)"]),
    "C14": dict(
        module="Flussab.Props.C14", engines=[("reader", 3000, 100000, "lies")], release=True,
        claim="The index discipline every unsafe block of the reader relies on (pos_in_buf + valid_len <= buf.len, "
              "so buf()/get_unchecked/8-byte loads stay inside the buffer) is the invariant Reader.Ok, proved to "
              "hold after every call of the safe API for EVERY source - lying Ok(n) > slice included - and across "
              "caught panics (op_preserves_ok, history_preserves_ok); a panicking advance is a no-op "
              "(advance_panic_is_noop, the statement defect F14 broke); a lying read is caught before the window "
              "changes (lying_read_leaves_window); every exposed byte was read from the source (window_was_read). "
              "Tie: reader engine with over-long advances under catch_unwind and lying sources, debug and release.",
        note="Proof level for the model's index arithmetic only: that the compiled unsafe code has no UB given this "
             "discipline (machine-level memory safety) is outside Lean; the writer half (len <= cap) is claimed "
             "under C11's model once registered. Trusted: Lean kernel, harness.",
        assumptions=["chunk >= 1", "position() not wrapped"]),
    "C09": dict(
        module="Flussab.Props.C09", engines=[("reader", 4000, 150000, "")],
        claim="Reader layer proved for all histories and schedules: exactly one non-Interrupted read per refill "
              "(one_read_per_refill), no read when buffered data satisfies the request (no_read_if_satisfied), no "
              "call after EOF/error (no_read_after_end, never_called_after_end), reads are demand driven "
              "(reads_only_when_demanded: the last read was issued while the demanded byte was not buffered). "
              "Tie: reader engine compares read-call counts after every op; oracle counts productive reads.",
        note="The parser half (no look-ahead past the completing line) is added as theorems over the View-level "
             "parser models in a later step of this build; until then it is carried by the format engines' "
             "line-source oracle only. Trusted: Lean kernel, harness.",
        assumptions=["chunk >= 1"]),
}
