"""Translation unit: the token functions of flussab-cnf/src/token.rs -> Gen/CnfTokenGen.lean.

State: `LR` (LineReader over the view), monad `PM` (Model/LineReader.lean).  Calls into the core crate
are mapped to the *models* of those functions, which are themselves tied to the source:
  text::fixed / tabs_or_spaces / newline / next_newline        -> Text.* via PM.scan        (Props/TieText)
  text::ascii_digits_multi / signed_ascii_digits_multi         -> Text.asciiDigits / signedAsciiDigits
                                                                  (TieText + C13 `multi_eq_simple`)
  reader.request_byte[_at_offset] / advance / buf()[..n] / set_mark / io_error / is_at_end
                                                               -> PM.reqAt / advance / bufPrefix / ...   (TieReader + C01/C02 refinement)
  LineReader::line_at_offset / give_up / give_up_at            -> PM.lineAtOffset / giveUp / giveUpAt
Encoding of results: `Parsed<T, ParseError>` is `Option T` (`Fallthrough` = none; a `ParseError` is not a
value but the thrown final outcome, so functions returning `ParseError` have type `PM α`);
`Parsed<T, String>` (the number tokens: the error is the numeral's text) is `Option (Option Int)`.

Closures and `flussab::Parsed` combinators (`PMUnit.pm_closures`, the conventions of tools/unit_aigertoken.py):
  errors         a `ParseError` is the thrown final outcome: `Result<T, ParseError>` is `PM T` (`Ok(v)` is `v`,
                 `Err(e)` is `e`, `r?` is `r`); `input.give_up(msg)` / `give_up_at(pos, msg)` -> `PM.giveUp` /
                 `PM.giveUpAt pos`; messages are not modelled (`&str` / `String` are `Unit`, `format!` is `()`,
                 its arguments are evaluated except for plain selections between string literals).
  combinators    applied to the *value* of the receiver and the translated closure body
                 (Model/CnfTokenExt.lean: hand-written contracts of flussab/src/parser.rs):
                   p.or_parse(|| q)        CnfTokenExt.orParse p do q
                   p.or_give_up(|| e)      CnfTokenExt.orGiveUp p do e
                   p.map_err(|s| e)        CnfTokenExt.mapErr p fun s => do e        (p : Parsed<T, String>)
                   p.and_also(|&mut v| r)  CnfTokenExt.andAlso p fun v => do r
                   p.matches()             (p).isSome        p.optional()   p
                 A `return` inside a closure body leaves the closure (a nested Lean `do` block).
  generic instances   `uint(input)` / `int(input)` / `braced_uint(input)` are called with an inferred type
                 argument; the instance is fixed per caller (`instances`): the result type of `var_count` /
                 `clause_group` makes it `usize`, in `uint_count::<T>` it is `T`.  Values of these instances stay
                 integers (`Int`, as in the generic functions): Rust type `T` in the emitter.
  `L: Dimacs`    a function generic over the literal type takes `(l : Cnf.LitTy)`; `L::MAX_DIMACS` is
                 `l.maxDimacs` (an `isize`), `x as usize` of an `isize` is `CnfTokenExt.isizeAsUsize`.
  skipped functions that are called from translated ones are replaced by their hand models
                 (`unexpected` -> `Cnf.unexpected`, `exceeds_var_count` -> `Cnf.exceedsVarCount`); these stay
                 tied by the correspondence runs only.
Still not translated: `clause_lits` (see `skip`).
"""
import re
from unitbase import *


class PMUnit(Unit):
    """Shared by the token units of the three format crates."""
    monad = "PM"
    get, modify, panic, assert_, usub, lift_opt = "PMExt.getLR", "PMExt.modifyLR", "(PM.rpanic \"generated\")", "PMExt.assert", "PMExt.usub", "PMExt.liftOpt"
    uadd = "PMExt.uadd"
    umul = "PMExt.umul"
    state_vars = {"input"}
    state_subobjects = {"reader"}
    state_types = ("LineReader",)
    generic_binder = "(t : IntTy)"
    generic_arg = "t"
    int_params = {"T", "I"}
    parsed_unit = "Parsed<(), ParseError>"

    def pm_common(self):
        u = self

        def st(name, lean, ty, nargs=0, hints=()):
            def h(em, e, env, hint):
                cs = em.cargs(e[3], env, list(hints))
                pre = [p for c in cs for p in c.pre]
                call = lean + "".join(" " + paren(c.val) for c in cs)
                if ty == "()":
                    return Code("()", "()", pre + [call])
                t = env.fresh()
                return Code(t, ty, pre + [f"let {t} ← {call}"])
            return h

        self.state_methods = {
            "request_byte_at_offset": st("request_byte_at_offset", "PM.reqAt", "Option<u8>", 1, ("usize",)),
            "request_byte": st("request_byte", "PM.reqByte", "Option<u8>"),
            "advance": st("advance", "PM.advance", "()", 1, ("usize",)),
            "set_mark": st("set_mark", "PM.setMark", "()"),
            "mark": st("mark", "PM.mark", "usize"),
            "position": st("position", "PM.position", "usize"),
            "line_at_offset": st("line_at_offset", "PM.lineAtOffset", "()", 1, ("usize",)),
            "is_at_end": st("is_at_end", "PMExt.isAtEnd", "bool"),
            "io_error": st("io_error", "PMExt.ioError", "Option<&io::Error>"),
        }

        def scan(fn_lean, ty, generic=False):
            def h(em, e, env, hint):
                args = e[2]
                if not em.is_state(args[0], env):
                    raise TErr("text::* is expected to be called on the reader of `input`")
                cs = em.cargs(args[1:], env, ["usize", "[u8]"])
                pre = [p for c in cs for p in c.pre]
                t = env.fresh()
                targ = " t" if generic else ""
                call = f"PM.scan ({fn_lean}{targ} · " + " ".join(paren(c.val) for c in cs) + ")"
                return Code(t, ty, pre + [f"let {t} ← {call}"])
            return h

        self.functions = {
            "text::fixed": scan("Text.fixed", "usize"),
            "text::tabs_or_spaces": scan("Text.tabsOrSpaces", "usize"),
            "text::newline": scan("Text.newline", "usize"),
            "text::next_newline": scan("Text.nextNewline", "usize"),
            "text::ascii_digits_multi": scan("Text.asciiDigits", "(Option<T>, usize)", True),
            "text::ascii_digits": scan("Text.asciiDigits", "(Option<T>, usize)", True),
            "text::signed_ascii_digits_multi": scan("Text.signedAsciiDigits", "(Option<T>, usize)", True),
            "text::signed_ascii_digits": scan("Text.signedAsciiDigits", "(Option<T>, usize)", True),
        }

        def res(em, e, env, hint):
            # Res(Ok(v)) / Res(Err(s))
            a = e[2][0]
            if a[0] == "call" and a[1][0] == "path" and a[1][1] == ["Ok"]:
                inner = a[2][0]
                c = em.cexpr(inner, env)
                if em.fn_ret_rust.endswith("String>"):
                    return Code(f"(some (some {paren(c.val)}))", em.fn_ret_rust, c.pre)
                return Code(f"(some {paren(c.val)})", em.fn_ret_rust, c.pre)
            if a[0] == "call" and a[1][0] == "path" and a[1][1] == ["Err"]:
                c = em.cexpr(a[2][0], env)
                if c.ty == "String":
                    return Code("(some none)", em.fn_ret_rust, c.pre)
                if c.ty == "!":
                    return c
                raise TErr("Res(Err(..)) of an error that is neither the numeral text nor a give_up")
            raise TErr("Res(..) of something else")

        self.functions["Res"] = res

        def utf8_chain(em, e, env, hint):
            # std::str::from_utf8(&input.reader.buf()[..offset]).unwrap().to_owned()
            if not (e[0] == "mcall" and e[2] == "to_owned" and e[1][0] == "mcall" and e[1][2] == "unwrap"):
                return None
            call = e[1][1]
            if not (call[0] == "call" and call[1][0] == "path" and call[1][1][-1] == "from_utf8"):
                return None
            arg = strip_ref(call[2][0])
            if not (arg[0] == "index" and arg[2][0] == "range" and arg[2][1] is None):
                return None
            b = strip_ref(arg[1])
            if not (b[0] == "mcall" and b[2] == "buf" and em.is_state(b[1], env)):
                return None
            n = em.cexpr(arg[2][2], env, "usize")
            t = env.fresh()
            return Code("()", "String", n.pre + [f"let {t} ← PM.bufPrefix {paren(n.val)}", f"PM.utf8Unwrap {t}"])

        self.chain_handlers = [utf8_chain]

        def is_none(em, c, e, env, hint):
            return Code(f"({c.val}).isNone", "bool", c.pre)

        def is_some(em, c, e, env, hint):
            return Code(f"({c.val}).isSome", "bool", c.pre)

        self.value_methods = {("Option<u8>", "is_none"): is_none, ("Option<u8>", "is_some"): is_some,
                              ("Option<&io::Error>", "is_none"): is_none}
        self.consts = dict(self.consts)
        self.consts["Fallthrough"] = ("none", None)
        self.types = dict(self.types)
        self.types.update({
            "Parsed<(), ParseError>": "Option Unit", "Parsed<T, String>": "Option (Option Int)",
            "Parsed<usize, ParseError>": "Option Nat", "[u8]": "List UInt8", "T": "Int", "Option<T>": "Option Int",
            "(Option<T>, usize)": "(Option Int × Nat)", "str": "Unit", "String": "Unit", "ParseError": "Unit",
        })


    # ------------------------------------------------------------------ closures and Parsed combinators
    def pm_closures(self, ext, modelled):
        """Handlers for `ParseError` as the thrown outcome and for the `flussab::Parsed` combinators applied to
        closures (the conventions of tools/unit_aigertoken.py).  `ext`: Lean namespace of the combinator
        contracts; `modelled`: rust name of a skipped function -> (Lean term of its hand model, result type,
        "!" = never returns)."""
        u = self
        self.state_methods = dict(self.state_methods)
        self.functions = dict(self.functions)
        self.value_methods = dict(self.value_methods)
        self.macros = dict(self.macros)

        # ---------------------------------------------------------------- errors
        def give_up(em, e, env, hint):
            cs = em.cargs(e[3], env, ["str"])
            return Code("()", "!", [p for c in cs for p in c.pre] + ["PM.giveUp"])

        def give_up_at(em, e, env, hint):
            cs = em.cargs(e[3], env, ["usize", "str"])
            return Code("()", "!", [p for c in cs for p in c.pre] + [f"PM.giveUpAt {paren(cs[0].val)}"])

        self.state_methods["give_up"] = give_up
        self.state_methods["give_up_at"] = give_up_at

        def str_choice(a):
            """`"a"` or `if c { "a" } else { "b" }` with a variable `c`: selects a message fragment only."""
            if a[0] == "str":
                return True
            if a[0] == "if" and a[1][0] == "path" and a[3] is not None:
                return all(b[0] == "block" and not b[1] and b[2] is not None and b[2][0] == "str" for b in (a[2], a[3]))
            return False

        def fmt(em, e, env):
            # format!(..): the message is not modelled; its arguments are evaluated (they must translate)
            pre = []
            for a in (e[2] or [])[1:]:
                if not str_choice(a):
                    pre += em.cexpr(a, env).pre
            return Code("()", "String", pre)

        self.macros["format"] = fmt

        def res_ok_of(h):
            if h and h.startswith("Result<"):
                return h[len("Result<"):].split(",")[0].strip()
            return None

        def ok(em, e, env, hint):
            return em.cexpr(e[2][0], env, res_ok_of(hint))

        def err(em, e, env, hint):
            c = em.cexpr(e[2][0], env)
            if c.ty != "!":
                raise TErr(f"{u.name}::{env.fn.name}: Err(..) of something that is not a give_up / error function")
            return c

        self.functions["Ok"] = ok
        self.functions["Err"] = err

        def try_(em, e, env, hint):
            c = em.cexpr(e[1], env, hint)
            if c.ty == "!":
                return c
            ok_ty = res_ok_of(c.ty)
            if ok_ty is None or not c.ty.endswith(", ParseError>"):
                raise TErr(f"{u.name}::{env.fn.name}: `?` on a {c.ty}")
            return Code(c.val, ok_ty, c.pre)

        self.try_handler = try_

        # ---------------------------------------------------------------- calls of hand-modelled functions
        def modelled_call(rust):
            lean, ty = modelled[rust]

            def h(em, e, env, hint):
                # arguments: `input`, strings, and values that only select the message
                pre = []
                for a in e[2]:
                    if em.is_state(a, env):
                        continue
                    pre += em.cexpr(a, env).pre
                if ty == "!":
                    return Code("()", "!", pre + [lean])
                t = env.fresh()
                return Code(t, ty, pre + [f"let {t} ← {lean}"])
            return h

        for r in modelled:
            self.functions[r] = modelled_call(r)

        # ---------------------------------------------------------------- Parsed combinators with closures
        def parsed_args(ty):
            if ty and ty.startswith("Parsed<") and ty.endswith(">"):
                parts = [p.strip() for p in ty[len("Parsed<"):-1].split(",")]
                if len(parts) == 2:
                    return parts
            return None

        def is_closure(a, nparams):
            return a[0] == "closure" and len(a[1]) == nparams

        def closure_param(cl, env, ty):
            par = cl[1][0]
            while par[0] == "pref":
                par = par[1]
            if par[0] == "pwild":
                return env.child(), "_"
            if par[0] != "pbind":
                raise TErr("closure parameter pattern")
            sub = env.child()
            ln = lname(par[1])
            sub.vars[par[1]] = (ln, ty)
            return sub, ln

        def closure_body(em, body, env, want=None):
            lines = em.cvalue(body if body[0] == "block" else ("block", [], body, False), env)
            ty = em._last_value_ty
            if want == "!" and ty != "!":
                raise TErr(f"{u.name}::{env.fn.name}: closure expected to produce a ParseError produces {ty}")
            return lines, ty

        def combinator(name, nparams):
            def match(e):
                return e[0] == "mcall" and e[2] == name and len(e[3]) == 1 and is_closure(e[3][0], nparams)
            return match

        is_or_give_up, is_or_parse = combinator("or_give_up", 0), combinator("or_parse", 0)
        is_map_err, is_and_also = combinator("map_err", 1), combinator("and_also", 1)

        def or_give_up(em, e, env, hint):
            if not is_or_give_up(e):
                return None
            p = em.cexpr(e[1], env)
            pa = parsed_args(p.ty)
            if not pa or pa[1] != "ParseError":
                raise TErr(f"{u.name}::{env.fn.name}: or_give_up on {p.ty}")
            body, _ = closure_body(em, e[3][0][2], env.child(), "!")
            t = env.fresh()
            return Code(t, f"Result<{pa[0]}, ParseError>", p.pre + [f"let {t} ← {ext}.orGiveUp {paren(p.val)} do", body])

        def or_parse(em, e, env, hint):
            if not is_or_parse(e):
                return None
            p = em.cexpr(e[1], env)
            pa = parsed_args(p.ty)
            if not pa or pa[1] != "ParseError":
                raise TErr(f"{u.name}::{env.fn.name}: or_parse on {p.ty}")
            body, ty = closure_body(em, e[3][0][2], env.child())
            if ty != p.ty:
                raise TErr(f"{u.name}::{env.fn.name}: or_parse of a {p.ty} with a closure producing {ty}")
            t = env.fresh()
            return Code(t, p.ty, p.pre + [f"let {t} ← {ext}.orParse {paren(p.val)} do", body])

        def map_err(em, e, env, hint):
            if not is_map_err(e):
                return None
            p = em.cexpr(e[1], env)
            pa = parsed_args(p.ty)
            if not pa or pa[1] != "String":
                raise TErr(f"{u.name}::{env.fn.name}: map_err on {p.ty}")
            sub, ln = closure_param(e[3][0], env, "String")
            body, _ = closure_body(em, e[3][0][2], sub, "!")
            t = env.fresh()
            return Code(t, f"Parsed<{pa[0]}, ParseError>",
                        p.pre + [f"let {t} ← {ext}.mapErr {paren(p.val)} fun {ln} => do", body])

        def and_also(em, e, env, hint):
            if not is_and_also(e):
                return None
            p = em.cexpr(e[1], env)
            pa = parsed_args(p.ty)
            if not pa or pa[1] != "ParseError":
                raise TErr(f"{u.name}::{env.fn.name}: and_also on {p.ty}")
            sub, ln = closure_param(e[3][0], env, pa[0])
            body, ty = closure_body(em, e[3][0][2], sub)
            if ty not in ("()", "!", "Result<(), ParseError>"):
                raise TErr(f"{u.name}::{env.fn.name}: and_also closure of type {ty}")
            t = env.fresh()
            return Code(t, p.ty, p.pre + [f"let {t} ← {ext}.andAlso {paren(p.val)} fun {ln} => do", body])

        def simple(em, e, env, hint):
            # p.matches() / p.optional() on a Parsed<T, ParseError>
            if not (e[0] == "mcall" and e[2] in ("matches", "optional") and not e[3]):
                return None
            p = em.cexpr(e[1], env)
            pa = parsed_args(p.ty)
            if not pa or pa[1] != "ParseError":
                raise TErr(f"{u.name}::{env.fn.name}: {e[2]}() on {p.ty}")
            if e[2] == "matches":
                return Code(f"({p.val}).isSome", "Result<bool, ParseError>", p.pre)
            return Code(p.val, f"Result<Option<{pa[0]}>, ParseError>", p.pre)

        self.chain_handlers = list(self.chain_handlers) + [or_give_up, or_parse, map_err, and_also, simple]
        self.types.update({"Result<(), ParseError>": "Unit", "Result<bool, ParseError>": "Bool"})


class CnfTokenUnit(PMUnit):
    name = "cnftoken"
    file = "flussab-cnf/src/token.rs"
    impl = None
    out = "CnfTokenGen.lean"
    namespace = "Flussab.Gen.CnfToken"
    imports = ["Flussab.Model.CnfTokenExt"]
    skip = {
        "unexpected": "builds a message from up to 60 bytes (Vec, format!); modelled by `Cnf.unexpected`",
        "exceeds_var_count": "formats a message (impl Display argument); modelled by `Cnf.exceedsVarCount`",
    }
    rename = {"fixed": "fixedTok", "word": "wordTok", "newline": "newlineTok"}
    # hand models of skipped functions: rust name -> (Lean term, result type; "!" = never returns)
    modelled = {
        "unexpected": ("Cnf.unexpected", "!"),
        "exceeds_var_count": ("Cnf.exceedsVarCount", "!"),
    }
    # type argument of the generic number tokens, per calling function (inferred by rustc from the caller's
    # result type / from the comparison with a `usize` / `isize` parameter)
    instances = {
        ("var_count", "uint"): "Cnf.usizeTy",
        ("uint_count", "uint"): "t",
        ("clause_group", "braced_uint"): "Cnf.usizeTy",
        ("clause_lits", "int"): "Cnf.isizeTy",
    }
    # the comment / newline loop: every iteration that does not leave the loop consumes at least one byte
    fuel = {"non_terminating_linebreaks": "(← PMExt.getLR).v.rest.length + 1",
            # the model's fuel for the literal loop; its out-of-fuel value is `rpanic "fuel"` as well
            "clause_lits": "(← PMExt.getLR).v.rest.length + 2"}
    fuel_panic = {"clause_lits": '(PM.rpanic "fuel")'}
    dimacs_binder = "(l : Cnf.LitTy)"

    def __init__(self):
        super().__init__()
        self.pm_common()
        self.pm_closures("CnfTokenExt", self.modelled)
        self.extra_binders = {}
        self.types.update({
            "Parsed<usize, ParseError>": "Option Int", "Parsed<T, ParseError>": "Option Int", "isize": "Int",
        })
        self.consts["L::MAX_DIMACS"] = ("l.maxDimacs", "isize")
        self.consts["Vec::new_empty"] = ("([] : List Int)", "Vec<L>")
        self.types.update({"Parsed<Vec<L>, ParseError>": "Option (List Int)", "Vec<L>": "List Int", "L": "Int",
                           "Parsed<isize, ParseError>": "Option Int"})

        def pushed(em, c, e, env, hint):
            a = em.cexpr(e[3][0], env, "L")
            return Code(f"({c.val} ++ [{a.val}])", "Vec<L>", c.pre + a.pre)

        self.value_methods = dict(self.value_methods)
        self.value_methods[("Vec<L>", "pushed")] = pushed

        def from_dimacs(em, e, env, hint):
            a = em.cexpr(e[2][0], env, "isize")
            return Code(f"(l.fromDimacs {paren(a.val)})", "L", a.pre)

        self.functions["L::from_dimacs"] = from_dimacs

        def contains(em, e, env, hint):
            # (-limit..=limit).contains(&lit)
            if not (e[0] == "mcall" and e[2] == "contains" and len(e[3]) == 1):
                return None
            r = strip_ref(e[1])
            if not (r[0] == "range" and r[3] and r[1] is not None and r[2] is not None):
                return None
            lo = em.cexpr(r[1], env, "isize")
            hi = em.cexpr(r[2], env, "isize")
            x = em.cexpr(e[3][0], env, "isize")
            return Code(f"(decide ({lo.val} ≤ {x.val}) && decide ({x.val} ≤ {hi.val}))", "bool", lo.pre + hi.pre + x.pre)

        self.chain_handlers = [contains] + list(self.chain_handlers)
        self.neg = dict(self.neg)
        self.neg["isize"] = "(-{})"
        self.casts = dict(self.casts)
        self.casts[("isize", "usize")] = "(CnfTokenExt.isizeAsUsize {})"
        u = self

        def instance(em, e, env, hint):
            short = e[1][1][-1]
            inst = u.instances.get((env.fn.name, short))
            if inst is None:
                raise TErr(f"cnftoken::{env.fn.name}: call of the generic `{short}` with an unknown type argument")
            if not em.is_state(e[2][0], env) or len(e[2]) != 1:
                raise TErr(f"`{short}` is expected to be called on `input`")
            t = env.fresh()
            return Code(t, "Parsed<T, String>", [f"let {t} ← {u.lean_name(short)} {inst}"])

        for g in {s for (_, s) in self.instances}:
            self.functions[g] = instance

        def max_value(em, e, env, hint):
            return Code("t.maxVal", "T")

        self.functions["T::max_value"] = max_value

    # ------------------------------------------------------------------ source normalisation
    @property
    def fns(self):
        return self._fns

    @fns.setter
    def fns(self, d):
        # `fn f<L: Dimacs>`: the literal type is the parameter `(l : Cnf.LitTy)` (not an `IntTy`)
        for f in d.values():
            if f.generics and re.fullmatch(r"<\s*L\s*:\s*Dimacs\s*>", f.generics.strip()):
                f.generics = None
                self.extra_binders[f.name] = self.dimacs_binder
        if "clause_lits" in d:
            self.normalise_clause_lits(d["clause_lits"])
        self._fns = d

    def normalise_clause_lits(self, f):
        """`clause_lits(input, lits: &mut Vec<L>, limit, hard_limit) -> Parsed<(), ParseError>` fills the
        out-parameter `lits` inside the closure of a final `.and_then(|mut lit| { lits.clear(); … Ok(()) })`.
        It is translated as the function that *returns* the literals:
          * the parameter `lits` becomes a local `let mut lits = <empty>` (the closure clears it first thing,
            and on `Fallthrough` / error the caller does not look at it); `lits.clear()` / `lits.push(x)` become
            assignments; the closure's final `Ok(())` becomes `Res(Ok(lits))`;
          * `p.and_then(|mut lit| BODY)` in tail position becomes `if let Res(Ok(lit)) = p { BODY } else { Fallthrough }`
            (`Parsed::and_then`, parser.rs, tied by Props/TieParsed; an error of `p` has already been thrown), so
            that `return Err(..)` inside BODY — which leaves only the closure, whose result `and_then` wraps in
            `Res(..)` — is the function's result, as it is in Rust.
        Any other shape of the function is a translation failure."""
        body = f.body
        tail = body[2]
        ok = (tail is not None and tail[0] == "mcall" and tail[2] == "and_then" and len(tail[3]) == 1
              and tail[3][0][0] == "closure" and len(tail[3][0][1]) == 1)
        params = [p for p in f.params if p[0] != "self"]
        ok = ok and len(params) == 4 and params[1][0][0] == "pbind" and params[1][0][1] == "lits"
        if not ok:
            raise TErr("cnftoken::clause_lits: the function no longer has the shape `… .and_then(|mut lit| { … })` with the out-parameter `lits`")
        cl = tail[3][0]
        cpat, cbody = cl[1][0], cl[2]
        if cbody[0] != "block":
            raise TErr("cnftoken::clause_lits: closure body")

        def rw(t):
            if isinstance(t, list):
                return [rw(x) for x in t]
            if not isinstance(t, tuple):
                return t
            if t and t[0] == "expr" and isinstance(t[1], tuple) and t[1][0] == "mcall" and t[1][1] == ("path", ["lits"]):
                m = t[1]
                if m[2] == "clear" and not m[3]:
                    return ("assign", "=", ("path", ["lits"]), ("path", ["Vec", "new_empty"]))
                if m[2] == "push" and len(m[3]) == 1:
                    return ("assign", "=", ("path", ["lits"]), ("mcall", ("path", ["lits"]), "pushed", [rw(m[3][0])]))
                raise TErr("cnftoken::clause_lits: use of `lits` other than clear / push")
            return tuple(rw(x) for x in t)

        new_stmts = rw(cbody[1])
        last = cbody[2]
        if not (last is not None and last[0] == "call" and last[1] == ("path", ["Ok"]) and last[2] == [("tuple", [])]):
            raise TErr("cnftoken::clause_lits: the closure is expected to end in Ok(())")
        new_tail = ("call", ("path", ["Res"]), [("call", ("path", ["Ok"]), [("path", ["lits"])])])
        if cpat[0] != "pbind":
            raise TErr("cnftoken::clause_lits: closure parameter")
        rebind = ("let", ("pbind", cpat[1], False, True, None), "isize", ("path", [cpat[1]]), None)
        inner = ("block", [rebind] + new_stmts, new_tail, False)
        # `Parsed<isize, ParseError>` is an `Option` in this unit (errors are thrown): Res(Ok(x)) = Some(x)
        scrut_pat = ("pts", ["Some"], [("pbind", cpat[1], False, False, None)])
        iflet = ("iflet", scrut_pat, tail[1], inner, ("block", [], ("path", ["Fallthrough"]), False))
        decl = ("let", ("pbind", "lits", False, True, None), "Vec<L>", ("path", ["Vec", "new_empty"]), None)
        f.body = ("block", [decl] + list(body[1]), iflet, body[3])
        f.params = [p for p in f.params if not (p[0] != "self" and p[0][0] == "pbind" and p[0][1] == "lits")]
        f.ret = "Parsed<Vec<L>, ParseError>"

    def local_fn(self, short, path):
        # calls of the generic number tokens: the instance is chosen by `instances`
        if any(s == short for (_, s) in self.instances):
            return None
        return super().local_fn(short, path)


UNIT = CnfTokenUnit
