"""Translation unit: the closure-free token functions of flussab-cnf/src/token.rs -> Gen/CnfTokenGen.lean.

State: `LR` (LineReader over the view), monad `PM` (Model/LineReader.lean).  Calls into the core crate
are mapped to the *models* of those functions, which are themselves tied to the source:
  text::fixed / tabs_or_spaces / newline / next_newline        -> Text.* via PM.scan        (Props/TieText)
  text::ascii_digits_multi / signed_ascii_digits_multi         -> Text.asciiDigits / signedAsciiDigits
                                                                  (TieText + C13 `multi_eq_simple`)
  reader.request_byte[_at_offset] / advance / buf()[..n] / set_mark / io_error / is_at_end
                                                               -> PM.reqAt / advance / bufPrefix / ...   (TieReader + C01/C02 refinement)
  LineReader::line_at_offset / give_up / give_up_at            -> PM.lineAtOffset / giveUp / giveUpAt
Encoding of results: `Parsed<T, ParseError>` is `Option T` (`Fallthrough` = none; a `ParseError` is not a
value but the thrown final outcome, so functions returning `ParseError` have type `PM α`);
`Parsed<T, String>` (the number tokens: the error is the numeral's text) is `Option (Option Int)`.

The functions built from closures and `Parsed` combinators (`var_count`, `uint_count`, `clause_group`,
`clause_lits`, `non_terminating_linebreaks`, `interactive_end_of_line`, `unexpected`) are not translated
yet: they stay tied by the correspondence runs only.
"""
from unitbase import *


class PMUnit(Unit):
    """Shared by the token units of the three format crates."""
    monad = "PM"
    get, modify, panic, assert_, usub, lift_opt = "PMExt.getLR", "PMExt.modifyLR", "(PM.rpanic \"generated\")", "PMExt.assert", "PMExt.usub", "PMExt.liftOpt"
    uadd = "PMExt.uadd"
    state_vars = {"input"}
    state_subobjects = {"reader"}
    state_types = ("LineReader",)
    generic_binder = "(t : IntTy)"
    generic_arg = "t"
    int_params = {"T", "I"}
    parsed_unit = "Parsed<(), ParseError>"

    def pm_common(self):
        u = self

        def st(name, lean, ty, nargs=0, hints=()):
            def h(em, e, env, hint):
                cs = em.cargs(e[3], env, list(hints))
                pre = [p for c in cs for p in c.pre]
                call = lean + "".join(" " + paren(c.val) for c in cs)
                if ty == "()":
                    return Code("()", "()", pre + [call])
                t = env.fresh()
                return Code(t, ty, pre + [f"let {t} ← {call}"])
            return h

        self.state_methods = {
            "request_byte_at_offset": st("request_byte_at_offset", "PM.reqAt", "Option<u8>", 1, ("usize",)),
            "request_byte": st("request_byte", "PM.reqByte", "Option<u8>"),
            "advance": st("advance", "PM.advance", "()", 1, ("usize",)),
            "set_mark": st("set_mark", "PM.setMark", "()"),
            "mark": st("mark", "PM.mark", "usize"),
            "position": st("position", "PM.position", "usize"),
            "line_at_offset": st("line_at_offset", "PM.lineAtOffset", "()", 1, ("usize",)),
            "is_at_end": st("is_at_end", "PMExt.isAtEnd", "bool"),
            "io_error": st("io_error", "PMExt.ioError", "Option<&io::Error>"),
        }

        def scan(fn_lean, ty, generic=False):
            def h(em, e, env, hint):
                args = e[2]
                if not em.is_state(args[0], env):
                    raise TErr("text::* is expected to be called on the reader of `input`")
                cs = em.cargs(args[1:], env, ["usize", "[u8]"])
                pre = [p for c in cs for p in c.pre]
                t = env.fresh()
                targ = " t" if generic else ""
                call = f"PM.scan ({fn_lean}{targ} · " + " ".join(paren(c.val) for c in cs) + ")"
                return Code(t, ty, pre + [f"let {t} ← {call}"])
            return h

        self.functions = {
            "text::fixed": scan("Text.fixed", "usize"),
            "text::tabs_or_spaces": scan("Text.tabsOrSpaces", "usize"),
            "text::newline": scan("Text.newline", "usize"),
            "text::next_newline": scan("Text.nextNewline", "usize"),
            "text::ascii_digits_multi": scan("Text.asciiDigits", "(Option<T>, usize)", True),
            "text::ascii_digits": scan("Text.asciiDigits", "(Option<T>, usize)", True),
            "text::signed_ascii_digits_multi": scan("Text.signedAsciiDigits", "(Option<T>, usize)", True),
            "text::signed_ascii_digits": scan("Text.signedAsciiDigits", "(Option<T>, usize)", True),
        }

        def res(em, e, env, hint):
            # Res(Ok(v)) / Res(Err(s))
            a = e[2][0]
            if a[0] == "call" and a[1][0] == "path" and a[1][1] == ["Ok"]:
                inner = a[2][0]
                c = em.cexpr(inner, env)
                if em.fn_ret_rust.endswith("String>"):
                    return Code(f"(some (some {paren(c.val)}))", em.fn_ret_rust, c.pre)
                return Code(f"(some {paren(c.val)})", em.fn_ret_rust, c.pre)
            if a[0] == "call" and a[1][0] == "path" and a[1][1] == ["Err"]:
                c = em.cexpr(a[2][0], env)
                if c.ty == "String":
                    return Code("(some none)", em.fn_ret_rust, c.pre)
                if c.ty == "!":
                    return c
                raise TErr("Res(Err(..)) of an error that is neither the numeral text nor a give_up")
            raise TErr("Res(..) of something else")

        self.functions["Res"] = res

        def utf8_chain(em, e, env, hint):
            # std::str::from_utf8(&input.reader.buf()[..offset]).unwrap().to_owned()
            if not (e[0] == "mcall" and e[2] == "to_owned" and e[1][0] == "mcall" and e[1][2] == "unwrap"):
                return None
            call = e[1][1]
            if not (call[0] == "call" and call[1][0] == "path" and call[1][1][-1] == "from_utf8"):
                return None
            arg = strip_ref(call[2][0])
            if not (arg[0] == "index" and arg[2][0] == "range" and arg[2][1] is None):
                return None
            b = strip_ref(arg[1])
            if not (b[0] == "mcall" and b[2] == "buf" and em.is_state(b[1], env)):
                return None
            n = em.cexpr(arg[2][2], env, "usize")
            t = env.fresh()
            return Code("()", "String", n.pre + [f"let {t} ← PM.bufPrefix {paren(n.val)}", f"PM.utf8Unwrap {t}"])

        self.chain_handlers = [utf8_chain]

        def is_none(em, c, e, env, hint):
            return Code(f"({c.val}).isNone", "bool", c.pre)

        def is_some(em, c, e, env, hint):
            return Code(f"({c.val}).isSome", "bool", c.pre)

        self.value_methods = {("Option<u8>", "is_none"): is_none, ("Option<u8>", "is_some"): is_some,
                              ("Option<&io::Error>", "is_none"): is_none}
        self.consts = dict(self.consts)
        self.consts["Fallthrough"] = ("none", None)
        self.types = dict(self.types)
        self.types.update({
            "Parsed<(), ParseError>": "Option Unit", "Parsed<T, String>": "Option (Option Int)",
            "Parsed<usize, ParseError>": "Option Nat", "[u8]": "List UInt8", "T": "Int", "Option<T>": "Option Int",
            "(Option<T>, usize)": "(Option Int × Nat)", "str": "Unit", "String": "Unit", "ParseError": "Unit",
        })


class CnfTokenUnit(PMUnit):
    name = "cnftoken"
    file = "flussab-cnf/src/token.rs"
    impl = None
    out = "CnfTokenGen.lean"
    namespace = "Flussab.Gen.CnfToken"
    imports = ["Flussab.Model.PMExt"]
    skip = {
        "interactive_end_of_line": "closure + Parsed combinator (or_parse)",
        "unexpected": "builds a message from up to 60 bytes (Vec, format!); modelled by `Cnf.unexpected`",
        "exceeds_var_count": "formats a message (impl Display argument); modelled by `Cnf.exceedsVarCount`",
        "var_count": "closures + Parsed combinators",
        "uint_count": "closures + Parsed combinators",
        "clause_group": "closures + Parsed combinators",
        "non_terminating_linebreaks": "closures + Parsed combinators",
        "clause_lits": "closures + Parsed combinators",
    }
    rename = {"fixed": "fixedTok", "word": "wordTok", "newline": "newlineTok"}

    def __init__(self):
        super().__init__()
        self.pm_common()


UNIT = CnfTokenUnit
