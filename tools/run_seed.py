#!/usr/bin/env python3
"""run_seed.py <seed-id> [<property> ...]
Development aid: apply seeded/<seed-id>/patch.diff to a fresh scratch worktree of /repo, run
./check <property> (default: the property the seed breaks) against it via VERIF_REPO, print the
verdict lines, remove the worktree.  (Official confirmation applies the patch to /repo itself.)"""
import json, os, subprocess, sys
ROOT = os.path.dirname(os.path.dirname(os.path.abspath(__file__)))
sid = sys.argv[1]
meta = json.load(open(f"{ROOT}/seeded/{sid}/meta.json"))
props = sys.argv[2:] or [meta["breaks_property"]]
wt = f"/tmp/runseed_{sid}"
def sh(c, **k): return subprocess.run(c, shell=True, stdout=subprocess.PIPE, stderr=subprocess.STDOUT, **k)
sh(f"git -C /repo worktree remove --force {wt}")
r = sh(f"git -C /repo worktree add -q --detach {wt} HEAD && cp /repo/Cargo.lock {wt}/ && git -C {wt} apply {ROOT}/seeded/{sid}/patch.diff")
if r.returncode:
    print("cannot prepare worktree:", r.stdout.decode()[-500:]); sys.exit(2)
try:
    for p in props:
        r = sh(f"./check {p}", cwd=ROOT, env=dict(os.environ, VERIF_REPO=wt))
        lines = [l for l in r.stdout.decode().split("\n") if l.startswith(("VIOLATION", "oracle:", "correspondence", p + " ", "KNOWN", "proof obligation"))]
        print(f"[{sid} / {p}] rc={r.returncode}")
        for l in lines: print("   ", l[:260])
finally:
    sh(f"git -C /repo worktree remove --force {wt}")
    import hashlib
    sh("rm -rf /tmp/vh_shadow_" + hashlib.md5(wt.encode()).hexdigest()[:8])
