"""Translation units: `Header::parse::<L>` of flussab-aiger/src/ascii.rs and binary.rs
-> Gen/AigerHeaderAsciiGen.lean / Gen/AigerHeaderBinaryGen.lean (state `LR`, monad `PM`).

The header line: the magic word, `M I L O A` with the limits each count is read with
(`(L::MAX_CODE - 1) / 2`, `limit -= input_count`, …), up to four optional counts, the final newline, and the
struct literal that puts the numbers into the fields.  Calls into token.rs are the token models, which are tied
to their own source by Props/TieAigerToken (`header_field`, `required_space`, `fixed`, …); `usize` subtraction is
the checked operation.  The struct literal `Header { .. }` becomes the model's `Aiger.Header` record field by
field (the field correspondence is the table `FIELDS` below; a field that appears or disappears is a
translation failure).
"""
from unitbase import *
from unit_aigertoken import AigerTokenUnit

FIELDS = {
    "max_var_index": "maxVarIndex", "input_count": "inputCount", "latch_count": "latchCount",
    "output_count": "outputCount", "and_gate_count": "andGateCount", "bad_state_property_count": "badCount",
    "invariant_constraint_count": "constraintCount", "justice_property_count": "justiceCount",
    "fairness_constraint_count": "fairnessCount",
}


class AigerHeaderUnit(AigerTokenUnit):
    impl = "Header"
    state_vars = {"reader"}
    imports = ["Flussab.Model.AigerTokenExt", "Flussab.Model.Aiger"]
    skip = {}
    rename = {}
    extra_binders = {}
    modelled = {"unexpected": ("Aiger.unexpected", "!")}
    generic_binder = "(l : Aiger.LitTy)"
    generic_arg = "l"
    fuel = {"parse": "1"}           # `#[allow(clippy::never_loop)] loop { … break }`: the body runs once
    int_literal_default = "usize"
    struct = ("Header", list(FIELDS))

    def __init__(self):
        super().__init__()
        self.consts = dict(self.consts)
        self.consts.update({"L::MAX_CODE": ("l.maxCode", "usize"), "usize::MAX": ("PM.usizeMax", "usize")})
        self.types = dict(self.types)
        self.types.update({"Result<Self, ParseError>": "Aiger.Header", "Self": "Aiger.Header", "Header": "Aiger.Header"})
        u = self

        def tok(lean, ty, nargs):
            """token::f(reader, <strings / values that only select a message>, <nargs value arguments> …)"""
            def h(em, e, env, hint):
                args = e[2]
                if not em.is_state(args[0], env):
                    raise TErr("token::* is expected to be called on the reader")
                vals = []
                pre = []
                for a in args[1:]:
                    c = em.cexpr(a, env, "usize")
                    pre += c.pre
                    if c.ty in ("usize",):
                        vals.append(paren(c.val))
                vals = vals[:nargs]
                if len(vals) != nargs:
                    raise TErr(f"aigerheader: call of {lean} with unexpected arguments")
                call = lean + "".join(" " + v for v in vals)
                if ty == "()":
                    return Code("()", "()", pre + [call])
                t = env.fresh()
                return Code(t, ty, pre + [f"let {t} ← {call}"])
            return h

        def fixed(em, e, env, hint):
            pat = em.cexpr(e[2][1], env, "[u8]")
            t = env.fresh()
            return Code(t, "Parsed<(), ParseError>", pat.pre + [f"let {t} ← Aiger.fixed {paren(pat.val)}"])

        self.functions = dict(self.functions)
        self.functions.update({
            "token::fixed": fixed,
            "token::required_space": tok("Aiger.requiredSpace", "()", 0),
            "token::required_newline": tok("Aiger.requiredNewline", "()", 0),
            "token::required_newline_or_space": tok("Aiger.requiredNewlineOrSpace", "bool", 0),
            "token::header_field": tok("Aiger.headerField", "usize", 1),
        })
        mc = self.functions.get("unexpected")
        if mc:
            self.functions["token::unexpected"] = mc

    @staticmethod
    def struct_handler(em, e, env, hint=None):
        if e[1][-1] != "Header" or e[3] is not None:
            raise TErr("aigerheader: struct literal")
        got = [f for f, _ in e[2]]
        if got != list(FIELDS):
            raise TErr(f"aigerheader: Header {{ .. }} lists the fields {got}, the model knows {list(FIELDS)}")
        cs = [(FIELDS[f], em.cexpr(v, env, "usize")) for f, v in e[2]]
        pre = [p for _, c in cs for p in c.pre]
        body = ", ".join(f"{lf} := {c.val}" for lf, c in cs)
        return Code(f"({{ {body} }} : Aiger.Header)", "Header", pre)

    def local_fn(self, short, path):
        return None


class AigerHeaderAsciiUnit(AigerHeaderUnit):
    name = "aigerheader_ascii"
    file = "flussab-aiger/src/ascii.rs"
    out = "AigerHeaderAsciiGen.lean"
    namespace = "Flussab.Gen.AigerHeaderAscii"


UNIT = AigerHeaderAsciiUnit
