"""Translation unit: the streaming parser `impl<'a, L: Dimacs> Parser<'a, L>` of flussab-cnf/src/gcnf.rs
-> Gen/GcnfParserGen.lean.

The unit of wcnf.rs (`unit_wcnfparser.py`, itself the plain-CNF unit `unit_cnfparser.py` plus the third header
number and the `(tag, literals)` result) with the GCNF parser struct, which has two more fields:
  state record     `Cnf.GParserS` (Model/GcnfParserExt.lean; the field list of the struct is checked), monad
                   `GPPM = StateT Cnf.GParserS PM`, contracts `GcnfParserExt.*`
  group_limit      `usize`, receives `usize::MAX` (`PM.usizeMax`) or `header.group_count` (a value of the generic
                   number token) -> `Int` (Rust type `T` in the emitter, as `clause_limit`)
  `Header { var_count, clause_count, group_count }` -> `Cnf.Header` with `extra := group_count`
  token::uint_count(reader, "group count")          -> `Cnf.uintCount Cnf.usizeTy` (`Header::group_count: usize`)
  token::clause_group(input, self.group_limit, self.group_limit_is_hard)
                                                     -> `GcnfParserExt.clauseGroup limit hard` = `Cnf.clauseGroup limit`
                                                        (tied to token.rs by Props/TieCnfToken.lean; `hard` only
                                                        selects a message)
"""
from unitbase import *
from unit_wcnfparser import WcnfParserUnit


class GcnfParserUnit(WcnfParserUnit):
    name = "gcnfparser"
    file = "flussab-cnf/src/gcnf.rs"
    out = "GcnfParserGen.lean"
    namespace = "Flussab.Gen.GcnfParser"
    imports = ["Flussab.Model.GcnfParserExt"]
    monad = "GPPM"
    ext = "GcnfParserExt"
    get, modify = "GcnfParserExt.getP", "GcnfParserExt.modifyP"
    panic = "(GcnfParserExt.tok (PM.rpanic \"generated\"))"
    record = "Cnf.GParserS"
    struct = ("Parser", ["reader", "clause_count", "clause_limit", "clause_limit_active", "lit_limit",
                         "lit_limit_is_hard", "group_limit", "group_limit_is_hard", "lit_buf", "header"])
    fields = dict(WcnfParserUnit.fields)
    fields["group_limit"] = dict(lean="groupLimit", ty="T")
    fields["group_limit_is_hard"] = dict(lean="groupLimitIsHard", ty="bool")
    value_fields = dict(WcnfParserUnit.value_fields)
    value_fields[("Header", "group_count")] = ("extra", "T")
    header_fields = {"var_count": "varCount", "clause_count": "clauseCount", "group_count": "extra"}
    uint_count_instances = {"clause count": "Cnf.usizeTy", "group count": "Cnf.usizeTy"}
    tag_ty = "usize"
    fuel = {
        "parse_header": "(← GcnfParserExt.getLR).v.rest.length + 1",
        "next_clause": "(← GcnfParserExt.getLR).v.rest.length + 2",
    }

    def __init__(self):
        super().__init__()
        u = self
        self.types.update({"Self": self.record, "Result<Self, ParseError>": self.record})
        self.consts["usize::MAX"] = ("PM.usizeMax", "T")
        self.casts[("T", "isize")] = "(CnfParserExt.usizeAsIsize {})"

        def clause_group(em, e, env, hint):
            args = e[2]
            if len(args) != 3 or not em.is_state(args[0], env):
                raise TErr(f"{u.name}::{env.fn.name}: clause_group(input, limit, hard) expected")
            cs = em.cargs(args[1:], env, ["T", "bool"])
            pre = [p for c in cs for p in c.pre]
            t = env.fresh()
            return Code(t, "Parsed<T, ParseError>",
                        pre + [f"let {t} ← {u.ext}.clauseGroup " + " ".join(paren(c.val) for c in cs)])

        self.functions["token::clause_group"] = clause_group


UNIT = GcnfParserUnit
