#!/usr/bin/env python3
"""run_all_seeds.py [id-prefix ...]
For every stored seed (optionally only ids starting with one of the prefixes): apply the patch to a
scratch worktree, run the quick check of the property the seed breaks (VERIF_REPO dev aid), record
the verdict in seeded/<id>/meta.json (`detected_by`) and print one line per seed."""
import hashlib, json, os, subprocess, sys, time
ROOT = os.path.dirname(os.path.dirname(os.path.abspath(__file__)))
pref = sys.argv[1:]
def sh(c, **k): return subprocess.run(c, shell=True, stdout=subprocess.PIPE, stderr=subprocess.STDOUT, **k)
for sid in sorted(os.listdir(f"{ROOT}/seeded")):
    mp = f"{ROOT}/seeded/{sid}/meta.json"
    if not os.path.exists(mp) or (pref and not any(sid.startswith(p) for p in pref)):
        continue
    meta = json.load(open(mp))
    prop = meta["breaks_property"]
    wt = f"/tmp/runseed_{sid}"
    sh(f"git -C /repo worktree remove --force {wt}")
    r = sh(f"git -C /repo worktree add -q --detach {wt} HEAD && cp /repo/Cargo.lock {wt}/ && git -C {wt} apply {ROOT}/seeded/{sid}/patch.diff")
    if r.returncode:
        print(sid, "cannot prepare worktree", r.stdout.decode()[-300:]); continue
    t0 = time.time()
    try:
        r = sh(f"./check {prop}", cwd=ROOT, env=dict(os.environ, VERIF_REPO=wt))
        out = r.stdout.decode("utf-8", "replace").split("\n")
        viol = [l for l in out if l.startswith("VIOLATION")]
        oracle = [l for l in out if l.startswith(("oracle:", "correspondence broken", "proof obligation"))]
        kind = "missed" if r.returncode == 0 else ("no-failing-input-found" if viol and viol[0].endswith("no-failing-input-found") else "failing-input")
        meta["detected_by"] = [dict(check=f"./check {prop}", tier="quick", verdict=kind, rc=r.returncode,
                                    evidence=(oracle[0][:300] if oracle else ""), wall_s=round(time.time() - t0, 1),
                                    verif_commit=sh("git rev-parse --short HEAD", cwd=ROOT).stdout.decode().strip())]
        json.dump(meta, open(mp, "w"), indent=1)
        print(f"{sid:42s} {prop} {kind:24s} {round(time.time()-t0):5d}s  {(oracle[0][:110] if oracle else '')}", flush=True)
    finally:
        sh(f"git -C /repo worktree remove --force {wt}")
        sh("rm -rf /tmp/vh_shadow_" + hashlib.md5(wt.encode()).hexdigest()[:8])
