"""Translation unit: `Parser::new` of flussab-aiger/src/binary.rs (see unit_aigerparsernew.py)."""
from unit_aigerparsernew import AigerNewUnit


class AigerNewBinaryUnit(AigerNewUnit):
    name = "aigernew_binary"
    file = "flussab-aiger/src/binary.rs"
    out = "AigerNewBinaryGen.lean"
    namespace = "Flussab.Gen.AigerNewBinary"
    bin = True


UNIT = AigerNewBinaryUnit
