"""Translation unit: the free functions `write_header`, `write_clause` of flussab-cnf/src/cnf.rs
-> Gen/CnfWriteGen.lean (state: Model.Writer, monad `RM Writer`).  Base class of `unit_wcnfwrite.py` and
`unit_gcnfwrite.py` (same two functions of wcnf.rs / gcnf.rs).

The writers work on `writer: &mut DeferredWriter` only through

  writer.write_all_defer_err(b"..")           the generated `Gen.Writer.writeAllDeferErr` (Gen/WriterGen.lean)
  write::text::ascii_digits(writer, v)        the generated `Gen.WriteText.asciiDigits signed bits v`
                                              (Gen/WriteTextGen.lean); the integer type `I` is read off the
                                              Rust type of the argument: `isize` (`lit.dimacs()`) = `true 64`,
                                              `u64` / `usize` (weight / group) = `false 64`
  writeln!(writer, "<fmt>", args..)           `DimacsWriteExt.writeFmt [pieces]`: std formatting through
                                              `impl Write for DeferredWriter`; the pieces are read off the format
                                              string here (literal text, `displayNat arg` per `{}`, final `\\n`),
                                              the contract joins them into ONE `write_all`
                                              (Model/DimacsWriteExt.lean says why and what that fixes)

External contracts (Model/DimacsWriteExt.lean): `L::dimacs` (`self as isize`, value kept), `Display` of
`usize` / `u64`, `writeFmt`.  Types: `L` = `Int` (the literal's value), `&[L]` = `List Int`, `u64` / `usize` =
`Nat`, `Header` = `DimacsWriteExt.Hdr` (field list checked against the struct of the file).
`for lit in clause_lits` becomes structural recursion over the list (`for_slices` of tools/rs2lean.py).
"""
import re
from unitbase import *

INT_TYPES = {"isize": ("true", 64), "i64": ("true", 64), "u64": ("false", 64), "usize": ("false", 64)}


class DimacsWriteUnit(Unit):
    impl = None
    imports = ["Flussab.Model.DimacsWriteExt"]
    monad = "RM Writer"
    state_vars = {"writer"}
    state_types = ("DeferredWriter",)
    for_slices = True
    types = {"L": "Int", "[L]": "List Int", "[ L ]": "List Int", "u64": "Nat", "isize": "Int",
             "Header": "DimacsWriteExt.Hdr", "io::Result<()>": "Except IoErr Unit"}
    extra_field = None          # name of the third header field (wcnf.rs: top_weight, gcnf.rs: group_count)
    extra_ty = None

    @property
    def value_fields(self):
        vf = {("Header", "var_count"): ("varCount", "usize"), ("Header", "clause_count"): ("clauseCount", "usize")}
        if self.extra_field:
            vf[("Header", self.extra_field)] = ("extra", self.extra_ty)
        return vf

    @property
    def struct(self):
        return ("Header", ["var_count", "clause_count"] + ([self.extra_field] if self.extra_field else []))

    def __init__(self):
        super().__init__()
        uname = self.name

        def write_all_defer_err(em, e, env, hint):
            a = em.cexpr(e[3][0], env, "[u8]")
            if a.ty != "[u8]":
                raise TErr(f"{uname}::{env.fn.name}: `write_all_defer_err` is expected to be called with a byte slice")
            return Code("()", "()", a.pre + [f"Gen.Writer.writeAllDeferErr {paren(a.val)}"])

        self.state_methods = {"write_all_defer_err": write_all_defer_err}

        def ascii_digits(em, e, env, hint):
            if len(e[2]) != 2 or not em.is_state(e[2][0], env):
                raise TErr(f"{uname}::{env.fn.name}: `write::text::ascii_digits` is expected to write to the unit's DeferredWriter")
            v = em.cexpr(e[2][1], env)
            it = INT_TYPES.get(v.ty)
            if it is None:
                raise TErr(f"{uname}::{env.fn.name}: `write::text::ascii_digits` of a value of type `{v.ty}`: "
                           "no integer type (signed, bits) known for it")
            val = paren(v.val) if it[0] == "true" else f"(({v.val} : Nat) : Int)"
            return Code("()", "()", v.pre + [f"Gen.WriteText.asciiDigits {it[0]} {it[1]} {val}"])

        self.functions = {"write::text::ascii_digits": ascii_digits}

        def dimacs(em, c, e, env, hint):
            if e[3]:
                raise TErr(f"{uname}::{env.fn.name}: `dimacs()` takes no arguments")
            return Code(f"(DimacsWriteExt.dimacs {paren(c.val)})", "isize", c.pre)

        self.value_methods = {("L", "dimacs"): dimacs}

        def writeln(em, e, env, hint=None):
            args = e[2]
            if len(args) < 2 or not em.is_state(args[0], env) or args[1][0] != "str":
                raise TErr(f"{uname}::{env.fn.name}: `writeln!` is expected to format a literal string into the unit's DeferredWriter")
            fmt = bytes(args[1][1])
            parts = re.split(rb"(\{[^{}]*\})", fmt)
            if b"{{" in fmt or b"}}" in fmt:
                raise TErr(f"{uname}::{env.fn.name}: escaped braces in a format string")
            rest = list(args[2:])
            pieces, pre = [], []
            for p in parts:
                if p.startswith(b"{"):
                    if p != b"{}":
                        raise TErr(f"{uname}::{env.fn.name}: format specification `{p.decode()}` (only `{{}}` is translated)")
                    if not rest:
                        raise TErr(f"{uname}::{env.fn.name}: more `{{}}` than arguments")
                    a = em.cexpr(rest.pop(0), env)
                    if a.ty not in ("usize", "u64"):
                        raise TErr(f"{uname}::{env.fn.name}: `{{}}` of a value of type `{a.ty}` (only usize / u64 have a `Display` contract)")
                    pre += a.pre
                    pieces.append(f"DimacsWriteExt.displayNat {paren(a.val)}")
                elif p:
                    pieces.append("[" + ", ".join(str(b) for b in p) + "]")
            if rest:
                raise TErr(f"{uname}::{env.fn.name}: more arguments than `{{}}`")
            pieces.append("[10]")       # writeln! appends "\n"
            t = env.fresh()
            return Code(t, "io::Result<()>", pre + [f"let {t} ← DimacsWriteExt.writeFmt [{', '.join(pieces)}]"])

        self.macros = {"writeln": writeln}


class CnfWriteUnit(DimacsWriteUnit):
    name = "cnfwrite"
    file = "flussab-cnf/src/cnf.rs"
    out = "CnfWriteGen.lean"
    namespace = "Flussab.Gen.CnfWrite"


UNIT = CnfWriteUnit
