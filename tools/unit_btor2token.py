"""Translation unit: the token functions of flussab-btor2/src/token.rs -> Gen/Btor2TokenGen.lean.

State `LR`, monad `PM`, external calls and the encoding of `Parsed` / `ParseError`: as in
tools/unit_cnftoken.py (`PMUnit`).  Additional to that unit:

  * functions on `reader: &mut DeferredReader` (`hex_string`, ...) are translated in the same monad: the
    reader of `input` is the only reader there is (`input.reader()` is the state);
  * functions returning `ParseError` (`exceeds_count`) are polymorphic computations `PM α` that always
    throw; a call of one has type `!`;
  * `Result<T, ParseError>`: `Ok(v)` is `pure v`, `Err(e)` is the thrown `e`; `r?` on
    `reader.check_io_error()` is `Btor2TokenExt.checkIoErrorTry`;
  * `&'a str` / `&'a BStr` results are slices of the reader's buffer (`BufStr` = `List UInt8`);
    `str::from_utf8_unchecked` (unsafe) is translated as the *checked* `PM.utf8Unwrap`;
    `reader.buf()[i]` / `reader.buf()[a..b]` are `Btor2TokenExt.bufAt` / `bufRange`;
  * the simplest `Parsed` combinator chains with closures are translated by `combinators` below:
        p.or_give_up(|| e)   PM.orGiveUp p e
        p.map_err(|s| e)     Btor2TokenExt.mapErr p (fun s => e)       (p : Parsed<T, String>)
        p.map(|x| e)         Btor2TokenExt.mapP p (fun x => e)
        p.map(NodeId)        p                                         (newtype)
    A closure body must be a single expression of the translated subset.
  * `ascii_lowercase` (the keyword scanner's loop) looks at `buf_len()` through `ascii_lowercase_u64`: the
    generated function takes the ghost `bl : Nat → Nat` (`bl o` = `buf_len()` when the step at offset `o`
    starts), like the `_multi` scanners of tools/unit_text.py take `bl`; the call of the (separately
    generated) kernel + cold path is `Btor2TokenExt.lowercaseU64`.

The source is normalised before translation (`normalise`, purely syntactic): `Ok(..)`/`Err(..)` outside
`Res(..)` become calls of the pseudo functions `PmOk`/`PmErr`, `e?` becomes the pseudo method `e.try_()`,
`x.buf()[i]` becomes `x.buf_at(i)`, `x.buf()[a..b]` becomes `x.buf_range(a, b)`, and the lifetime-carrying
result types `&'a str`, `&'a BStr` are renamed `BufStr` (`&str` parameters are message fragments: `Unit`);
`let mut offset = 0;` gets the annotation `usize` (`local_types`: rustc infers it from the uses).
The normalisation runs when gen_core hands the parsed functions to the unit (`fns` setter).
"""
import re
from unitbase import *
from unit_cnftoken import PMUnit


def rewrite(t, in_res=False):
    """Syntactic normalisation of an expression tree (see the module comment)."""
    if isinstance(t, list):
        return [rewrite(x, in_res) for x in t]
    if not isinstance(t, tuple) or not t:
        return t
    if t[0] == "call" and t[1][0] == "path":
        name = t[1][1]
        if name == ["Res"]:
            # Res(Ok(v)) / Res(Err(e)) are handled as a whole by PMUnit
            a = t[2][0]
            if a[0] == "call" and a[1][0] == "path" and a[1][1] in (["Ok"], ["Err"]):
                return ("call", t[1], [("call", a[1], rewrite(a[2]))])
        if name == ["Ok"]:
            return ("call", ("path", ["PmOk"]), rewrite(t[2]))
        if name == ["Err"]:
            return ("call", ("path", ["PmErr"]), rewrite(t[2]))
    if t[0] == "try":
        return ("mcall", rewrite(t[1]), "try_", [])
    if t[0] == "let" and t[1][0] == "pbind" and t[2] is None and t[3] is not None and t[3][0] == "lit" \
            and t[1][1] in Btor2TokenUnit.local_types:
        return ("let", t[1], Btor2TokenUnit.local_types[t[1][1]], t[3], t[4])
    if t[0] == "index":
        b = strip_ref(t[1])
        if b[0] == "mcall" and b[2] == "buf" and not b[3]:
            if t[2][0] == "range":
                if t[2][1] is not None and t[2][2] is not None and not t[2][3]:
                    return ("mcall", rewrite(b[1]), "buf_range", [rewrite(t[2][1]), rewrite(t[2][2])])
            else:
                return ("mcall", rewrite(b[1]), "buf_at", [rewrite(t[2])])
    return tuple(rewrite(x) if isinstance(x, (tuple, list)) else x for x in t)


class Btor2TokenUnit(PMUnit):
    name = "btor2token"
    file = "flussab-btor2/src/token.rs"
    impl = None
    out = "Btor2TokenGen.lean"
    namespace = "Flussab.Gen.Btor2Token"
    imports = ["Flussab.Model.PMExt", "Flussab.Model.Btor2TokenExt"]
    state_vars = {"input", "reader"}
    state_types = ("LineReader", "DeferredReader")
    generic_binder = None          # the only generics are lifetimes
    generic_arg = None
    # `let mut offset = 0;`: the literal's type is inferred by rustc from the uses (request_byte_at_offset)
    local_types = {"offset": "usize"}
    skip = {
        "unexpected": "builds a message from up to 60 bytes (Vec, format!, from_utf8_lossy); calls of it are "
                      "the model `Btor2.unexpected`",
        "ascii_lowercase_u64": "the straight-line kernel is translated by tools/gen_swar.py into Gen/Swar.lean; calls "
                               "of it are `Btor2TokenExt.lowercaseU64` (buf_len() test + cold path + that kernel)",
        "ascii_lowercase_u64_cold": "`std::array::from_fn` with a closure that mutates captured variables",
        "node_token": "keyword -> token `match` table, generated by tools/gen_tables.py into Gen/Btor2Tables.lean",
        "sort_token": "keyword -> token `match` table, generated by tools/gen_tables.py into Gen/Btor2Tables.lean",
    }
    # `buf_len()` at the start of the step at offset `o` (it grows between steps: the cold path requests bytes)
    extra_binders = {"exceeds_count": "{α : Type}", "ascii_lowercase": "(bl : Nat → Nat)"}
    fuel = {
        "skip_whitespace": "(← PMExt.getLR).v.rest.length + 2",
        "ascii_lowercase": "(← PMExt.getLR).v.rest.length + 2",
    }
    for _n in ("comment_body", "symbol_name", "hex_string", "decimal_string", "binary_string"):
        fuel[_n] = "(← PMExt.getLR).v.rest.length + 1"
    del _n

    # ------------------------------------------------------------------ source normalisation
    @property
    def fns(self):
        return self._fns

    @fns.setter
    def fns(self, d):
        for f in d.values():
            if not getattr(f, "_btor2_normalised", False):
                f.body = rewrite(f.body)
                if f.ret:
                    f.ret = re.sub(r"&\s*'a\s+(str|BStr)\b", "BufStr", f.ret)
                f._btor2_normalised = True
        self._fns = d

    def error_fn(self, short):
        """Is `short` a translated function of this unit that returns a `ParseError`?"""
        fn = self._fns.get(short)
        return fn is not None and short not in self.skip and norm_ty(fn.ret or "") == "ParseError"

    def local_fn(self, short, path):
        if self.error_fn(short):
            return None          # -> `functions` (a call of it is the thrown outcome, type `!`)
        return super().local_fn(short, path)

    # ------------------------------------------------------------------ handlers
    def __init__(self):
        super().__init__()
        self.pm_common()
        u = self
        self.state_methods = dict(self.state_methods)
        self.functions = dict(self.functions)
        self.value_methods = dict(self.value_methods)
        self.macros = dict(self.macros)

        def simple(lean, ty, hints):
            def h(em, e, env, hint):
                cs = em.cargs(e[3], env, list(hints))
                pre = [p for c in cs for p in c.pre]
                t = env.fresh()
                return Code(t, ty, pre + [f"let {t} ← {lean}" + "".join(" " + paren(c.val) for c in cs)])
            return h

        def give_up(em, e, env, hint):
            # the message (format!) is not part of the outcome
            return Code("()", "!", ["PM.giveUp"])

        def give_up_at(em, e, env, hint):
            c = em.cexpr(e[3][0], env, "usize")
            return Code("()", "!", c.pre + [f"PM.giveUpAt {paren(c.val)}"])

        self.state_methods.update({
            "advance_with_buf": simple("PM.advanceWithBuf", "[u8]", ("usize",)),
            "buf_at": simple("Btor2TokenExt.bufAt", "u8", ("usize",)),
            "buf_range": simple("Btor2TokenExt.bufRange", "[u8]", ("usize", "usize")),
            "give_up": give_up,
            "give_up_at": give_up_at,
        })

        def fmt(em, e, env):
            return Code("()", "String")

        self.macros["format"] = fmt

        def digits(em, e, env, hint):
            # text::ascii_digits_multi::<u64>: the value is kept as a natural number
            args = e[2]
            if not em.is_state(args[0], env):
                raise TErr("text::* is expected to be called on the reader of `input`")
            c = em.cexpr(args[1], env, "usize")
            t = env.fresh()
            return Code(f"(({t}.1).map Int.toNat, {t}.2)", "(Option<u64>, usize)",
                        c.pre + [f"let {t} ← PM.scan (Text.asciiDigits Flussab.Btor2.u64Ty · {paren(c.val)})"])

        def pm_ok(em, e, env, hint):
            return em.cexpr(e[2][0], env, res_ok_ty(em.fn_ret_rust))

        def pm_err(em, e, env, hint):
            c = em.cexpr(e[2][0], env)
            if c.ty != "!":
                raise TErr("Err(..) of something that is not a thrown ParseError")
            return c

        def unexpected(em, e, env, hint):
            if not em.is_state(e[2][0], env):
                raise TErr("unexpected(..) is expected to be called on `input`")
            return Code("()", "!", ["Flussab.Btor2.unexpected"])

        def utf8_unchecked(em, e, env, hint):
            c = em.cexpr(e[2][0], env)
            if c.ty != "[u8]":
                raise TErr("from_utf8_unchecked of something that is not a byte slice")
            return Code(c.val, "BufStr", c.pre + [f"PM.utf8Unwrap {paren(c.val)}"])

        def lowercase_u64(em, e, env, hint):
            if not em.is_state(e[2][0], env):
                raise TErr("ascii_lowercase_u64 is expected to be called on the reader")
            if "bl" not in env.extra:
                raise TErr(f"`{env.fn.name}` calls ascii_lowercase_u64 but has no buf_len() ghost")
            c = em.cexpr(e[2][1], env, "usize")
            t = env.fresh()
            return Code(t, "(u64, usize)", c.pre + [f"let {t} ← Btor2TokenExt.lowercaseU64 (bl {paren(c.val)}) {paren(c.val)}"])

        self.functions.update({
            "text::ascii_digits_multi": digits, "PmOk": pm_ok, "PmErr": pm_err, "unexpected": unexpected,
            "str::from_utf8_unchecked": utf8_unchecked, "ascii_lowercase_u64": lowercase_u64,
        })

        def error_call(em, e, env, hint):
            short = e[1][1][-1]
            fn = u._fns[short]
            params = [p for p in fn.params if p[0] != "self"]
            pre, cs = [], []
            for (pat, pty), a in zip(params, e[2]):
                if u.is_state_type(pty):
                    if not em.is_state(a, env):
                        raise TErr(f"`{short}` is called on something that is not the unit's state")
                    continue
                c = em.cexpr(a, env, norm_ty(pty))
                pre += c.pre
                cs.append(paren(c.val))
            return Code("()", "!", pre + [u.lean_name(short) + "".join(" " + c for c in cs)])

        class ErrFns(dict):
            """`functions`, plus the unit's own `-> ParseError` functions."""
            def get(self, k, d=None):
                if k in self:
                    return self[k]
                if u.error_fn(k.split("::")[-1]) and "::" not in k:
                    return error_call
                return d

        self.functions = ErrFns(self.functions)

        def identity(ty):
            def h(em, c, e, env, hint):
                return Code(c.val, ty, c.pre)
            return h

        def length(em, c, e, env, hint):
            return Code(f"({c.val}).length", "usize", c.pre)

        self.value_methods.update({
            ("[u8]", "into"): identity("BufStr"), ("BufStr", "len"): length,
        })

        # -------------------------------------------------------------- chains
        def closure_term(em, cl, env, param_tys):
            """A closure `|x, ..| body` as a Lean term `fun x .. => <PM computation>`."""
            if cl[0] != "closure" or len(cl[1]) != len(param_tys):
                raise TErr("expected a closure with %d parameter(s)" % len(param_tys))
            sub = env.child()
            names = []
            for p, ty in zip(cl[1], param_tys):
                if p[0] != "pbind":
                    raise TErr("closure parameter pattern")
                names.append(em.declare(sub, p[1], ty, False))
            lines = em.cvalue(cl[2], sub)
            ty = em._last_value_ty
            if any(not isinstance(l, str) for l in lines):
                raise TErr("closure body with control flow")
            m = re.fullmatch(r"let (\w+) ← (.*)", lines[-2]) if len(lines) >= 2 else None
            if m and lines[-1] == f"pure {m.group(1)}":
                lines = lines[:-2] + [m.group(2)]
            body = lines[0] if len(lines) == 1 else "do " + "; ".join(lines)
            return ("fun " + " ".join(names) + " => " if names else "") + body, ty

        def parsed_args(ty):
            m = re.fullmatch(r"Parsed<(.*)>", ty or "")
            if not m:
                raise TErr(f"combinator on `{ty}`, which is not a Parsed<..>")
            from rs2lean import split_top
            parts = [p.strip() for p in split_top(m.group(1))]
            return parts[0], parts[1]

        def comp(em, e, env):
            """Expression `e` as (statements to run first, Lean term of the computation, Rust type)."""
            if e[0] == "mcall" and e[2] in ("or_give_up", "map_err", "map") and len(e[3]) == 1:
                pre, p, ty = comp(em, e[1], env)
                t_ok, t_err = parsed_args(ty)
                arg = e[3][0]
                if e[2] == "or_give_up":
                    if t_err != "ParseError":
                        raise TErr("or_give_up on a Parsed whose error is not a ParseError")
                    err, ety = closure_term(em, arg, env, [])
                    if ety != "!":
                        raise TErr("or_give_up closure that does not build a ParseError")
                    return pre, f"PM.orGiveUp {paren(p)} {paren(err)}", f"Result<{t_ok}, ParseError>"
                if e[2] == "map_err":
                    if t_err != "String":
                        raise TErr("map_err on a Parsed whose error is not the numeral text")
                    err, ety = closure_term(em, arg, env, ["String"])
                    if ety != "!":
                        raise TErr("map_err closure that does not build a ParseError")
                    return pre, f"Btor2TokenExt.mapErr {paren(p)} ({err})", f"Parsed<{t_ok}, ParseError>"
                if arg[0] == "path" and arg[1] == ["NodeId"]:
                    return pre, p, f"Parsed<NodeId, {t_err}>"          # newtype constructor
                f, fty = closure_term(em, arg, env, [t_ok])
                return pre, f"Btor2TokenExt.mapP {paren(p)} ({f})", f"Parsed<{fty}, {t_err}>"
            c = em.cexpr(e, env)
            m = re.fullmatch(r"let (\w+) ← (.*)", c.pre[-1]) if c.pre and isinstance(c.pre[-1], str) else None
            if not m or m.group(1) != c.val:
                raise TErr("combinator on something that is not a call")
            return c.pre[:-1], m.group(2), c.ty

        def combinators(em, e, env, hint):
            if not (e[0] == "mcall" and e[2] in ("or_give_up", "map_err", "map") and len(e[3]) == 1):
                return None
            pre, term, ty = comp(em, e, env)
            t = env.fresh()
            return Code(t, ty, pre + [f"let {t} ← {term}"])

        def try_chain(em, e, env, hint):
            if not (e[0] == "mcall" and e[2] == "try_"):
                return None
            r = e[1]
            if r[0] == "mcall" and r[2] == "check_io_error" and em.is_state(r[1], env) and not r[3]:
                return Code("()", "()", ["Btor2TokenExt.checkIoErrorTry"])
            raise TErr("`?` on something other than reader.check_io_error()")

        def nonzero_chain(em, e, env, hint):
            # NonZeroU64::new(v).unwrap()
            if not (e[0] == "mcall" and e[2] == "unwrap" and e[1][0] == "call" and e[1][1][0] == "path"
                    and e[1][1][1] == ["NonZeroU64", "new"]):
                return None
            c = em.cexpr(e[1][2][0], env, "u64")
            t = env.fresh()
            return Code(t, "NonZeroU64", c.pre + [f"let {t} ← Btor2TokenExt.nonZeroUnwrap {paren(c.val)}"])

        self.chain_handlers = list(self.chain_handlers) + [combinators, try_chain, nonzero_chain]

        self.types.update({
            "ParseError": "α", "BufStr": "List UInt8",
            "Result<(), ParseError>": "Unit", "Result<BufStr, ParseError>": "List UInt8",
            "Parsed<BufStr, ParseError>": "Option (List UInt8)",
            "Parsed<u64, String>": "Option (Option Nat)", "(Option<u64>, usize)": "(Option Nat × Nat)",
            "Option<u64>": "Option Nat", "NonZeroU64": "Nat", "NodeId": "Nat",
            "Parsed<NonZeroU64, ParseError>": "Option Nat", "Parsed<u64, ParseError>": "Option Nat",
            "Parsed<NodeId, ParseError>": "Option Nat", "Result<NonZeroU64, ParseError>": "Nat",
            "Result<u64, ParseError>": "Nat", "Result<NodeId, ParseError>": "Nat",
            "(u64, usize)": "(BitVec 64 × Nat)",
        })


def res_ok_ty(ty):
    m = re.fullmatch(r"Result<(.*), ParseError>", ty or "")
    return m.group(1) if m else None


UNIT = Btor2TokenUnit
