"""Translation unit: `impl Writer` of flussab-aiger/src/ascii.rs -> Gen/AigerWriteGen.lean.

State: `ascii::Writer` is a `#[repr(transparent)]` wrapper of the `DeferredWriter`, so the state is the model
`Writer` (monad `RM Writer`) and `self.writer` is the state object itself.  The calls into the writer are the
*generated* functions of the units writer / writetext:

  self.writer.write_all_defer_err(bs)                    `Gen.Writer.writeAllDeferErr bs`
  flussab::write::text::ascii_digits(&mut self.writer, v)   `Gen.WriteText.asciiDigits false 64 (v : Int)`
                                                         (`v: usize` in every call: `ascii_digits::<usize>`)
Values:
  `L` (a literal)            `Nat`, its code; `lit.code()` is the value itself (`code() ≤ L::MAX_CODE ≤ usize::MAX`)
  `Latch<L>`, `AndGate<L>`, `Symbol`, `Header`   the records of Model/Aiger.lean; `and_gate.inputs[0]` / `[1]`
                                                 are the fields `in0` / `in1`; `symbol.target` is
                                                 `Aiger.Symbol.target` of Model/AigerWriteExt.lean (the enum `SymbolTarget`)
  `&str`                     its bytes (`as_bytes()` is the identity)
  `[usize; 9]`, `&[usize]`   `List Nat`; `as_slice()` identity, `split_last()` = `AigerWriteExt.splitLast`
  `for &field in fields`     structural recursion over the list (no fuel, no `Ctl`: the body has no jump)
  `while let Some((0, rest)) = fields.split_last()`   loop with fuel `fields.length + 1`
"""
from unitbase import *
from unit_aigerheader import FIELDS


class AigerWriteUnit(Unit):
    name = "aigerwrite"
    file = "flussab-aiger/src/ascii.rs"
    impl = "Writer"
    out = "AigerWriteGen.lean"
    namespace = "Flussab.Gen.AigerWrite"
    imports = ["Flussab.Gen.WriteTextGen", "Flussab.Model.AigerWriteExt"]
    monad = "RM Writer"
    state_vars = {"self"}
    state_subobjects = {"writer"}
    state_types = ()
    trust_exhaustive = True     # Rust checked the matches; Lean re-checks them when the file is built
    wl = "{}"                   # how a computation of the DeferredWriter is run on the unit's state
    structs = [("Writer", ["writer", "codec"])]
    skip = {
        "new": "`unsafe` pointer cast of `&mut DeferredWriter` to `&mut Self` (`#[repr(transparent)]`)",
        "write_aig": "translated by the unit `aigerwritedoc`, not here: whole-file driver over `Aig<L>` (vectors, nested loops); modelled by `Aiger.writeAig` as the "
                     "concatenation of the pieces tied here",
        "write_ordered_aig": "translated by the units `aigerwritedoc` / `aigerbinwritedoc`, not here: whole-file driver over `OrderedAig<L>`; modelled by `Aiger.writeOrderedAigAscii`",
    }
    fuel = {"write_header": "fields.length + 1"}
    gate_ty = "AndGate<L>"

    def __init__(self):
        super().__init__()
        u = self
        self.types = {
            "L": "Nat", "Header": "Aiger.Header", "Latch<L>": "Aiger.Latch", "AndGate<L>": "Aiger.AndGate",
            "OrderedLatch<L>": "Aiger.OLatch", "OrderedAndGate<L>": "Aiger.OGate",
            "Symbol": "Aiger.Symbol", "str": "List UInt8", "[u8]": "List UInt8", "[usize]": "(List Nat)",
            "SymbolTarget": "AigerWriteExt.SymbolTarget", "Option<bool>": "Option Bool",
        }
        self.value_fields = {("Header", f): lf for f, lf in FIELDS.items()}
        self.value_fields.update({
            ("Latch<L>", "state"): ("state", "L"), ("Latch<L>", "next_state"): ("next", "L"),
            ("Latch<L>", "initialization"): ("init", "Option<bool>"),
            ("OrderedLatch<L>", "next_state"): ("next", "L"),
            ("OrderedLatch<L>", "initialization"): ("init", "Option<bool>"),
            ("AndGate<L>", "output"): ("out", "L"),
            ("Symbol", "name"): ("name", "str"), ("Symbol", "target"): ("target", "SymbolTarget"),
        })
        self.ctors = {
            "SymbolTarget::Input": "AigerWriteExt.SymbolTarget.input",
            "SymbolTarget::Output": "AigerWriteExt.SymbolTarget.output",
            "SymbolTarget::Latch": "AigerWriteExt.SymbolTarget.latch",
            "SymbolTarget::BadStateProperty": "AigerWriteExt.SymbolTarget.bad",
            "SymbolTarget::InvariantConstraint": "AigerWriteExt.SymbolTarget.constraint",
            "SymbolTarget::JusticeProperty": "AigerWriteExt.SymbolTarget.justice",
            "SymbolTarget::FairnessConstraint": "AigerWriteExt.SymbolTarget.fairness",
        }

        def write_all_defer_err(em, e, env, hint):
            a = em.cexpr(e[3][0], env, "[u8]")
            if a.ty not in ("[u8]", "str"):
                raise TErr(f"{u.name}::{env.fn.name}: `write_all_defer_err` of a value of type {a.ty}")
            return Code("()", "()", a.pre + [u.wl.format(f"Gen.Writer.writeAllDeferErr {paren(a.val)}")])

        self.state_methods = {"write_all_defer_err": write_all_defer_err}

        def ascii_digits(em, e, env, hint):
            if len(e[2]) != 2 or not em.is_state(e[2][0], env):
                raise TErr(f"{u.name}::{env.fn.name}: `ascii_digits` is expected to write to `self.writer`")
            v = em.cexpr(e[2][1], env, "usize")
            if v.ty not in ("usize", None, "?"):
                # (a variable bound by a `SymbolTarget::X(index)` pattern carries no Rust type here; `Int.ofNat`
                # makes Lean reject anything that is not a `Nat`)
                raise TErr(f"{u.name}::{env.fn.name}: `ascii_digits` of a value of type {v.ty} (expected usize)")
            return Code("()", "()", v.pre + [u.wl.format(f"Gen.WriteText.asciiDigits false 64 (Int.ofNat {paren(v.val)})")])

        self.functions = {"flussab::write::text::ascii_digits": ascii_digits}

        def ident(ty):
            def h(em, c, e, env, hint):
                if e[3]:
                    raise TErr("unexpected arguments")
                return Code(c.val, ty, c.pre)
            return h

        def slice_len(em, c, e, env, hint):
            return Code(f"{paren(c.val)}.length", "usize", c.pre)

        def split_last(em, c, e, env, hint):
            return Code(f"(AigerWriteExt.splitLast {paren(c.val)})", "Option<(usize, [usize])>", c.pre)

        self.value_methods = {
            ("L", "code"): ident("usize"), ("str", "as_bytes"): ident("[u8]"),
            ("[usize]", "as_slice"): ident("[usize]"), ("[usize]", "len"): slice_len,
            ("[usize]", "split_last"): split_last,
        }

        def array_lit(em, e, env, hint):
            # `[a, b, ..]` of usize values
            if e[0] == "array":
                cs = [em.cexpr(x, env, "usize") for x in e[1]]
                if any(c.ty != "usize" for c in cs):
                    raise TErr(f"{u.name}::{env.fn.name}: array literal of non-usize values")
                return Code("[" + ", ".join(c.val for c in cs) + "]", "[usize]", [p for c in cs for p in c.pre])
            return None

        self.expr_handler = array_lit

        def index(em, e, env):
            # `and_gate.inputs[0]` / `[1]`
            b, i = strip_ref(e[1]), e[2]
            if b[0] == "field" and b[2] == "inputs" and i[0] == "lit" and i[1] in (0, 1):
                c = em.cexpr(b[1], env)
                if c.ty == u.gate_ty:
                    return Code(f"{paren(c.val)}.in{i[1]}", "L", c.pre)
            return None

        self.index_handler = index

        def for_slice(em, e, env, lname_):
            """`for &x in xs` over a `[usize]` with a body that has no jump and assigns no local."""
            pat, it, body = e[1], strip_ref(e[2]), e[3]
            xs = em.cexpr(it, env)
            if xs.ty != "[usize]":
                return None
            while pat[0] == "pref":
                pat = pat[1]
            if pat[0] != "pbind":
                raise TErr("for pattern")
            assigned, used = set(), set()
            collect(e, assigned, used)
            if [v for v in env.vars if v in assigned]:
                raise TErr(f"{u.name}::{env.fn.name}: `for` over a slice that assigns a local")
            inner = set()
            bound_names(e, inner)
            caps = [v for v in env.vars if v in used and v not in inner and v != (it[1][0] if it[0] == "path" else None)]
            cap_binders = "".join(f" ({env.vars[c][0]} : {em.lean_type(env.vars[c][1])})" for c in caps)
            cap_args = "".join(" " + env.vars[c][0] for c in caps)
            sub = env.child()
            sub.loop = None
            xv = lname(pat[1])
            sub.vars[pat[1]] = (xv, "usize")
            rest_v = env.fresh("rest")
            lines = em.cstmts(body[1], sub)
            if body[2] is not None:
                lines += em.cstmt(("expr", body[2], True), sub)
            lines += [f"{lname_}{cap_args} {rest_v}"]
            aux = [f"def {lname_}{cap_binders} : List Nat → {u.monad} (Unit)",
                   "  | [] => pure ()",
                   f"  | {xv} :: {rest_v} => do"] + rs_flatten(lines, 2)
            env.aux.append("\n".join(aux))
            return xs.pre + [f"{lname_}{cap_args} {paren(xs.val)}"]

        self.for_handler = for_slice


from rs2lean import collect, bound_names, flatten as rs_flatten

UNIT = AigerWriteUnit
