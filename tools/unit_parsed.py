"""Translation unit: the `Parsed<T, E>` combinators of flussab/src/parser.rs -> Gen/ParsedGen.lean.

Pure functions: the monad is `Id`; closures (`impl FnOnce(..) -> ..`) are function parameters.  `Parsed<T, E>`
is `ParsedR α ε` (`res (r : Except ε α) | fallthrough`, Model/ParsedExt.lean), mirroring the Rust enum
`Res(Result<T, E>) | Fallthrough`; `ParsedR.toModel` maps it to the flattened `Model.Parsed` that the C15
theorems are about.

`and_also` / `and_do`: the closure receives `&mut T`, a reference into `self` obtained by `if let PAT(value) = &mut self`.
As pure functions: a closure `impl FnOnce(&mut T) -> R` is a function `T -> (T, R)` (`impl FnOnce(&mut T)`: `T -> T`)
returning the new value of the referent, and the unit rewrites (`normalise_mut_closure`; any other shape is a
translation failure)

    if let PAT(value) = &mut self { STMTS }  self
 ~> match self { PAT(value) => { STMTS'  PAT(value) }  other => other }

where in STMTS' `let r = g(value);` is `let (value, r) = g(value);` and the statement `g(value);` is `let value = g(value);`
(`value` is used nowhere else): the by-value `self` that the function returns is `PAT` of the referent after the
closure has run; an early `return` inside STMTS does not mention `self`.

`err_into` is `self.map_err(From::from)`: the conversion between the error types is the ghost parameter `fromE`; the
call of `map_err` is the translated `map_err` of this file (for `Result`: std's, contract `ParsedExt.resultMapErr`).
A statement `g(value)?;` where `g` returns `Result<(), E>` in a function returning `Result<_, E>` (identical error
types, so the `From::from` of `?` is the identity) is `if let Err(e) = g(value) { return Err(e); }`.
The `ResultExt` impl is the subclass unit `resultext` (tools/unit_resultext.py).
"""
from unitbase import *


class ParsedUnit(Unit):
    name = "parsed"
    file = "flussab/src/parser.rs"
    impl = "Parsed"
    traits = ("From",)
    out = "ParsedGen.lean"
    namespace = "Flussab.Gen.Parsed"
    imports = ["Flussab.Model.ParsedExt"]
    monad = "Id"
    panic = "(pure default)"
    state_vars = set()
    state_types = ()
    self_value_type = "Parsed<T, E>"
    generic_binder = "{α β ε ε' : Type}"
    generic_arg = ""
    always_generic = True
    trust_exhaustive = True     # Rust checked the matches; Lean re-checks them when the file is built
    skip = {}
    # `err_into`: `self.map_err(From::from)` -- the conversion of the error types is the ghost parameter `fromE`
    extra_binders = {"err_into": "(fromE : ε → ε')"}
    rename = {"matches": "matches_", "from": "fromResult"}
    types = {
        "Parsed<T, E>": "ParsedR α ε", "Parsed<U, E>": "ParsedR β ε", "Parsed<T2, E>": "ParsedR β ε",
        "Parsed<T, E2>": "ParsedR α ε'", "Self": "ParsedR α ε",
        "Result<T, E>": "Except ε α", "Result<U, E>": "Except ε β", "Result<Option<T>, E>": "Except ε (Option α)",
        "Result<bool, E>": "Except ε Bool", "T": "α", "E": "ε", "U": "β", "T2": "β", "E2": "ε'",
        "impl FnOnce() -> E": "(Unit → ε)", "impl FnOnce() -> Parsed<T, E>": "(Unit → ParsedR α ε)",
        "impl FnOnce() -> Result<T, E>": "(Unit → Except ε α)", "impl FnOnce(T) -> Result<U, E>": "(α → Except ε β)",
        "impl FnOnce(T) -> T2": "(α → β)", "impl FnOnce(E) -> E2": "(ε → ε')",
        "impl FnOnce(&mut T) -> Result<(), E>": "(α → α × Except ε Unit)", "impl FnOnce(&mut T)": "(α → α)",
        "Result<(), E>": "Except ε Unit",
    }
    ctors = {"Res": ".res", "Fallthrough": ".fallthrough"}

    def __init__(self):
        super().__init__()
        self.consts = {"Fallthrough": ("ParsedR.fallthrough", None), "From::from": ("fromE", "impl FnOnce(E) -> E2")}

        def res(em, e, env, hint):
            c = em.cexpr(e[2][0], env)
            return Code(f"(ParsedR.res {paren(c.val)})", hint, c.pre)

        self.functions = {"Res": res}

        def map_err_parsed(em, c, e, env, hint):
            # `self.map_err(f)` inside the impl: the translated `map_err` of this file
            a = em.cexpr(e[3][0], env, "impl FnOnce(E) -> E2")
            t = env.fresh()
            return Code(t, "Parsed<T, E2>", c.pre + a.pre + [f"let {t} ← mapErr (β := β) {paren(c.val)} {paren(a.val)}"])

        def map_err_result(em, c, e, env, hint):
            # `Result::map_err` of std: contract `ParsedExt.resultMapErr`
            a = em.cexpr(e[3][0], env, "impl FnOnce(E) -> E2")
            return Code(f"(ParsedExt.resultMapErr {paren(c.val)} {paren(a.val)})", "Result<T, E2>", c.pre + a.pre)

        self.value_methods = dict(self.value_methods)
        self.value_methods[("Parsed<T, E>", "map_err")] = map_err_parsed
        self.value_methods[("Result<T, E>", "map_err")] = map_err_result

        def untranslatable(em, e, env):
            raise TErr(e[3])

        self.macros = dict(self.macros)
        self.macros["untranslatable"] = untranslatable

    def local_fn(self, short, path):
        return None

    @property
    def fns(self):
        return self._fns

    @fns.setter
    def fns(self, d):
        for f in d.values():
            if f.name not in self.skip and any(isinstance(p[1], str) and "&mut" in p[1].replace(" ", "") and "FnOnce" in p[1]
                                               for p in f.params if p[0] != "self"):
                try:
                    self.normalise_mut_closure(f)
                except TErr as ex:
                    f.body = ("block", [], ("macro", "untranslatable", None, str(ex)), False)
        self._fns = d

    def normalise_mut_closure(self, f):
        """See the module docstring."""
        bad = TErr(f"parsed::{f.name}: not of the shape `if let PAT(value) = &mut self {{ .. g(value) .. }} self`")
        closures = {p[0][1] for p in f.params if p[0] != "self" and p[0][0] == "pbind" and "FnOnce" in p[1]}
        b = f.body
        if not (f.params[0] == ("self", "mut") and b[0] == "block" and len(b[1]) == 1 and b[2] == ("path", ["self"])):
            raise bad
        st = b[1][0]
        if not (st[0] == "expr" and st[1][0] == "iflet" and st[1][2] == ("un", "&mut", ("path", ["self"])) and st[1][4] is None):
            raise bad
        pat, body = st[1][1], st[1][3]

        def binders(p):
            if p[0] == "pbind":
                return [p[1]] if p[4] is None and not p[2] and not p[3] else [None]
            if p[0] == "pts":
                return [x for q in p[2] for x in binders(q)]
            return [None]

        def as_expr(p):
            if p[0] == "pbind":
                return ("path", [p[1]])
            return ("call", ("path", p[1]), [as_expr(q) for q in p[2]])

        bs = binders(pat)
        if len(bs) != 1 or bs[0] is None or body[0] != "block":
            raise bad
        stmts = list(body[1])
        if body[2] is not None:         # a trailing `if` / `if let` without `else` (type `()`) is a statement
            if not (body[2][0] in ("if", "iflet") and body[2][-1] is None):
                raise bad
            stmts.append(("expr", body[2], False))
        v = bs[0]
        arg = [("path", [v])]

        def mentions(e):
            if isinstance(e, tuple):
                if e == ("path", [v]):
                    return True
                return any(mentions(x) for x in e)
            if isinstance(e, list):
                return any(mentions(x) for x in e)
            return False

        out, calls = [], 0
        stmts2 = []
        for s_ in stmts:
            # `g(value)?;` where `g` returns `Result<(), E>` and the function returns `Result<_, E>` (the same error
            # type: the `From::from` of `?` is the identity) is `let r = g(value); if let Err(e) = r { return Err(e); }`
            if (s_[0] == "expr" and s_[1][0] == "try" and s_[1][1][0] == "call" and s_[1][1][1][0] == "path"
                    and len(s_[1][1][1][1]) == 1 and s_[1][1][1][1][0] in closures and s_[1][1][2] == arg
                    and norm_ty(f.ret or "").startswith("Result<")
                    and norm_ty(dict((p[0][1], p[1]) for p in f.params if p[0] != "self")[s_[1][1][1][1][0]]).replace(" ", "").endswith("->Result<(),E>")):
                stmts2.append(("let", ("pbind", "try_r", False, False, None), None, s_[1][1], None))
                stmts2.append(("expr", ("iflet", ("pts", ["Err"], [("pbind", "try_e", False, False, None)]), ("path", ["try_r"]),
                                        ("block", [("expr", ("return", ("call", ("path", ["Err"]), [("path", ["try_e"])])), True)], None, False),
                                        None), False))
            else:
                stmts2.append(s_)
        stmts = stmts2
        for s_ in stmts:
            if (s_[0] == "let" and s_[1][0] == "pbind" and s_[3] is not None and s_[3][0] == "call" and s_[3][1][0] == "path"
                    and len(s_[3][1][1]) == 1 and s_[3][1][1][0] in closures and s_[3][2] == arg and s_[4] is None):
                out.append(("let", ("ptuple", [("pbind", v, False, False, None), s_[1]]), None, s_[3], None))
                calls += 1
            elif (s_[0] == "expr" and s_[2] and s_[1][0] == "call" and s_[1][1][0] == "path" and len(s_[1][1][1]) == 1
                    and s_[1][1][1][0] in closures and s_[1][2] == arg):
                out.append(("let", ("pbind", v, False, False, None), None, s_[1], None))
                calls += 1
            elif mentions(s_):
                raise bad
            else:
                out.append(s_)
        if calls != 1:
            raise bad
        other = "other_"
        f.body = ("block", [], ("match", ("path", ["self"]),
                                [(pat, None, ("block", out, as_expr(pat), False)),
                                 (("pbind", other, False, False, None), None, ("path", [other]))]), b[3])


UNIT = ParsedUnit
