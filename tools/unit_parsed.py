"""Translation unit: the `Parsed<T, E>` combinators of flussab/src/parser.rs -> Gen/ParsedGen.lean.

Pure functions: the monad is `Id`; closures (`impl FnOnce(..) -> ..`) are function parameters.  `Parsed<T, E>`
is `ParsedR α ε` (`res (r : Except ε α) | fallthrough`, Model/ParsedExt.lean), mirroring the Rust enum
`Res(Result<T, E>) | Fallthrough`; `ParsedR.toModel` maps it to the flattened `Model.Parsed` that the C15
theorems are about.  Not translated: `and_also` / `and_do` (the closure mutates through `&mut T`; closures
as pure functions cannot express that), `err_into` (`From::from`), and the `ResultExt` impl.
"""
from unitbase import *


class ParsedUnit(Unit):
    name = "parsed"
    file = "flussab/src/parser.rs"
    impl = "Parsed"
    traits = ("From",)
    out = "ParsedGen.lean"
    namespace = "Flussab.Gen.Parsed"
    imports = ["Flussab.Model.ParsedExt"]
    monad = "Id"
    panic = "(pure default)"
    state_vars = set()
    state_types = ()
    self_value_type = "Parsed<T, E>"
    generic_binder = "{α β ε ε' : Type}"
    generic_arg = ""
    always_generic = True
    trust_exhaustive = True     # Rust checked the matches; Lean re-checks them when the file is built
    skip = {
        "err_into": "`self.map_err(From::from)`: the conversion is a trait method of the error types",
        "and_also": "the closure receives `&mut T` and may assign through it",
        "and_do": "the closure receives `&mut T` and may assign through it",
    }
    rename = {"matches": "matches_", "from": "fromResult"}
    types = {
        "Parsed<T, E>": "ParsedR α ε", "Parsed<U, E>": "ParsedR β ε", "Parsed<T2, E>": "ParsedR β ε",
        "Parsed<T, E2>": "ParsedR α ε'", "Self": "ParsedR α ε",
        "Result<T, E>": "Except ε α", "Result<U, E>": "Except ε β", "Result<Option<T>, E>": "Except ε (Option α)",
        "Result<bool, E>": "Except ε Bool", "T": "α", "E": "ε", "U": "β", "T2": "β", "E2": "ε'",
        "impl FnOnce() -> E": "(Unit → ε)", "impl FnOnce() -> Parsed<T, E>": "(Unit → ParsedR α ε)",
        "impl FnOnce() -> Result<T, E>": "(Unit → Except ε α)", "impl FnOnce(T) -> Result<U, E>": "(α → Except ε β)",
        "impl FnOnce(T) -> T2": "(α → β)", "impl FnOnce(E) -> E2": "(ε → ε')",
    }
    ctors = {"Res": ".res", "Fallthrough": ".fallthrough"}

    def __init__(self):
        super().__init__()
        self.consts = {"Fallthrough": ("ParsedR.fallthrough", None)}

        def res(em, e, env, hint):
            c = em.cexpr(e[2][0], env)
            return Code(f"(ParsedR.res {paren(c.val)})", hint, c.pre)

        self.functions = {"Res": res}

    def local_fn(self, short, path):
        return None


UNIT = ParsedUnit
