"""Translation unit: flussab/src/write/text.rs -> Gen/WriteTextGen.lean (state: Model.Writer).

`ascii_digits::<I>` / `ascii_digits_cold::<I>` over the generated writer (`Gen/WriterGen.lean`).  The
integer type `I` is the pair `(signed : Bool) (bits : Nat)`, a value of it an `Int`.  External contracts:

  I::MAX_LEN                     `Writer.maxLen signed bits`
  itoap::write_to_ptr(ptr, v)    `WriterExt.writeToPtr ptr MAX_LEN (Writer.intDigits v)`: checked write of the
                                 decimal text into the spare capacity, the text is returned as ghost value
                                 and its length is what Rust returns (see unit_writer.py, "spare capacity")
  itoap::write(writer, v)        `writer.write(<decimal text of v>)`  (itoap 1.0.1 `write`: formats into a
                                 stack buffer and calls `Write::write` once) = generated `Gen.Writer.write`
  writer.buf_write_ptr / advance_unchecked     the generated functions of `Gen/WriterGen.lean`
"""
from unitbase import *


class WriteTextUnit(Unit):
    name = "writetext"
    file = "flussab/src/write/text.rs"
    impl = None
    out = "WriteTextGen.lean"
    namespace = "Flussab.Gen.WriteText"
    imports = ["Flussab.Gen.WriterGen"]
    monad = "RM Writer"
    state_vars = {"writer"}
    state_types = ("DeferredWriter",)
    types = {"I": "Int", "[u8]": "List UInt8", "io::Result<usize>": "Except IoErr Nat",
             "* mut u8": "Option Nat", "*mut u8": "Option Nat"}
    generic_binder = "(signed : Bool) (bits : Nat)"
    generic_arg = "signed bits"
    consts = {"I::MAX_LEN": ("(Writer.maxLen signed bits)", "usize")}

    def __init__(self):
        super().__init__()
        spare = {}

        def buf_write_ptr(em, e, env, hint):
            n = em.cexpr(e[3][0], env, "usize")
            t = env.fresh()
            return Code(t, "*mut u8", n.pre + [f"let {t} ← Gen.Writer.bufWritePtr {paren(n.val)}"])

        def advance_unchecked(em, e, env, hint):
            n = em.cexpr(e[3][0], env, "usize")
            sp = spare.get(env.fn.name)
            if sp is None:
                raise TErr(f"writetext::{env.fn.name}: `advance_unchecked` with no preceding write through the pointer")
            return Code("()", "()", n.pre + [f"Gen.Writer.advanceUnchecked {paren(n.val)} {sp}"])

        self.state_methods = {"buf_write_ptr": buf_write_ptr, "advance_unchecked": advance_unchecked}

        def write_to_ptr(em, e, env, hint):
            p = em.cexpr(e[2][0], env, "*mut u8")
            v = em.cexpr(e[2][1], env, "I")
            if v.ty != "I":
                raise TErr("writetext: `itoap::write_to_ptr` is expected to be called with a value of the integer type `I`")
            t = env.fresh("spare")
            spare[env.fn.name] = t
            return Code(f"{t}.length", "usize", p.pre + v.pre +
                        [f"let {t} ← WriterExt.writeToPtr {paren(p.val)} (Writer.maxLen signed bits) (Writer.intDigits {paren(v.val)})"])

        def itoap_write(em, e, env, hint):
            if not em.is_state(e[2][0], env):
                raise TErr("writetext: `itoap::write` is expected to write to the unit's DeferredWriter")
            v = em.cexpr(e[2][1], env, "I")
            if v.ty != "I":
                raise TErr("writetext: `itoap::write` is expected to be called with a value of the integer type `I`")
            t = env.fresh()
            return Code(t, "io::Result<usize>", v.pre + [f"let {t} ← Gen.Writer.write (Writer.intDigits {paren(v.val)})"])

        self.functions = {"itoap::write_to_ptr": write_to_ptr, "itoap::write": itoap_write}

        def is_null(em, c, e, env, hint):
            return Code(f"({c.val}).isNone", "bool", c.pre)

        self.value_methods = {("*mut u8", "is_null"): is_null}


UNIT = WriteTextUnit
