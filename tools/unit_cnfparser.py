"""Translation unit: the streaming parser `impl<'a, L: Dimacs> Parser<'a, L>` of flussab-cnf/src/cnf.rs
-> Gen/CnfParserGen.lean.

State: the pair (parser fields, reader).  The fields of the Rust struct other than `reader` are the record
`Cnf.ParserS` (Model/CnfParserExt.lean; the field list of the struct is checked), the reader is the state `LR`
of the parser monad `PM`; the generated code runs in `PPM = StateT Cnf.ParserS PM`.
  self.<field>, new.<field>             -> `CnfParserExt.getP` / `modifyP` on the record
  self.reader, `let reader = &mut self.reader`, `let input = &mut self.reader`, the parameter `reader` of `new`
                                        -> aliases of the state object (emitter feature `state_aliases`): calls
                                           that take them act on the `PM` state
  `let mut new = Self { reader, f: v, .. }`   -> `CnfParserExt.setP { f := v, .. }` and `new` is an alias of the
                                           state; `Ok(new)` returns the record (`← getP`)
  `Header { var_count, clause_count }`  -> the model's record `Cnf.Header` (`extra := 0`)
Calls into token.rs are mapped to the *token models* (tied to token.rs by Props/TieCnfToken.lean, except
`clause_lits` / `unexpected`, which are tied by correspondence runs), lifted by `CnfParserExt.tok`:
  token::word / var_count::<L> / uint_count / interactive_end_of_line / comment / newline / eof / skip_whitespace
  token::unexpected(reader, msg)        -> `Cnf.unexpected` (the message is not modelled)
  token::clause_lits(input, &mut self.lit_buf, limit, hard) -> `CnfParserExt.clauseLits l limit hard` (the model
                                           `Cnf.clauseLits` returns the literals, the contract stores them in `litBuf`)
  self.unexpected_statement()           -> `Cnf.unexpected` (only chooses a message, then calls `token::unexpected`)
Closures / `Parsed` combinators: `PMUnit.pm_closures` with the contracts of `CnfParserExt` (over `PPM`), plus
`and_then`.  `loop { .. break <value> .. }` as the function's tail: emitter feature (`Ctl.ret`).
Types: values of the generic number tokens stay `Int` (Rust type `T` in the emitter), hence `Header`'s fields and
`clause_limit` are `Int`; `header.var_count as isize` is `CnfParserExt.usizeAsIsize`.
"""
from unitbase import *
from unit_cnftoken import PMUnit


class CnfParserUnit(PMUnit):
    name = "cnfparser"
    file = "flussab-cnf/src/cnf.rs"
    impl = "Parser"
    out = "CnfParserGen.lean"
    namespace = "Flussab.Gen.CnfParser"
    imports = ["Flussab.Model.CnfParserExt"]
    monad = "PPM"
    ext = "CnfParserExt"
    get, modify = "CnfParserExt.getP", "CnfParserExt.modifyP"
    panic = "(CnfParserExt.tok (PM.rpanic \"generated\"))"
    assert_ = usub = uadd = lift_opt = None     # not used by the parser (a use is a Lean error = failed build)
    state_vars = {"self"}
    state_subobjects = {"reader"}
    state_types = ("LineReader",)
    state_aliases = True
    struct = ("Parser", ["reader", "clause_count", "clause_limit", "clause_limit_active", "lit_limit",
                         "lit_limit_is_hard", "lit_buf", "header"])
    keyword = "cnf"
    skip = {
        "from_buf_reader": "constructor: builds the DeferredReader / LineReader, then calls `new`",
        "from_read": "constructor: builds the DeferredReader / LineReader, then calls `new`",
        "from_boxed_dyn_read": "constructor: builds the DeferredReader / LineReader, then calls `new`",
        "unexpected_statement": "only chooses the message (Vec<&str>, join, push_str) and calls `token::unexpected`; "
                                "modelled by `Cnf.unexpected`",
    }
    fields = {
        "clause_count": dict(lean="clauseCount", ty="usize"),
        "clause_limit": dict(lean="clauseLimit", ty="T"),
        "clause_limit_active": dict(lean="clauseLimitActive", ty="bool"),
        "lit_limit": dict(lean="litLimit", ty="isize"),
        "lit_limit_is_hard": dict(lean="litLimitIsHard", ty="bool"),
        "lit_buf": dict(lean="litBuf", ty="Vec<L>"),
        "header": dict(lean="header", ty="Option<Header>"),
    }
    # struct values: (Rust type, field) -> (Lean projection, Rust type)
    value_fields = {
        ("Header", "var_count"): ("varCount", "T"),
        ("Header", "clause_count"): ("clauseCount", "T"),
        ("Config", "ignore_header"): ("ignoreHeader", "bool"),
    }
    header_fields = {"var_count": "varCount", "clause_count": "clauseCount"}
    # token.rs functions -> (hand model, result type, hints of the non-state arguments that are passed on)
    tokens = {
        "token::skip_whitespace": ("Cnf.skipWhitespace", "()", []),
        "token::comment": ("Cnf.comment", "Parsed<(), ParseError>", []),
        "token::newline": ("Cnf.newline", "Parsed<(), ParseError>", []),
        "token::eof": ("Cnf.eof", "Parsed<(), ParseError>", []),
        "token::interactive_end_of_line": ("Cnf.interactiveEndOfLine", "Parsed<(), ParseError>", []),
        "token::word": ("Cnf.word", "Parsed<(), ParseError>", ["[u8]"]),
        "token::var_count": ("Cnf.varCount l", "Parsed<T, ParseError>", []),
    }
    # `uint_count(reader, what)`: the type argument is inferred from the `Header` field the value goes to
    uint_count_instances = {"clause count": "Cnf.usizeTy"}
    fuel = {
        # every iteration that does not leave the loop consumes at least one byte (a comment or a newline)
        "parse_header": "(← CnfParserExt.getLR).v.rest.length + 1",
        "next_clause": "(← CnfParserExt.getLR).v.rest.length + 2",
    }
    dimacs_binder = "(l : Cnf.LitTy)"

    def __init__(self):
        super().__init__()
        self.pm_common()
        self.pm_closures(self.ext, {})
        u = self
        ext = self.ext
        # the reader is not accessed directly by the parser
        self.state_methods = {}
        self.extra_binders = {f: self.dimacs_binder for f in ("new", "parse_header", "next_clause")}
        self.types.update({
            "Parsed<T, ParseError>": "Option Int", "isize": "Int", "T": "Int",
            "Header": "Cnf.Header", "Option<Header>": "Option Cnf.Header", "Config": "Cnf.Config",
            "Self": "Cnf.ParserS", "Vec<L>": "List Int",
            "Result<Self, ParseError>": "Cnf.ParserS",
            "Result<Option<Header>, ParseError>": "Option Cnf.Header",
            "Result<Option<& [L]>, ParseError>": "Option (List Int)",
            "Option<& [L]>": "Option (List Int)",
        })
        self.consts["L::MAX_DIMACS"] = ("l.maxDimacs", "isize")
        self.casts = dict(self.casts)
        self.casts[("T", "isize")] = "(" + ext + ".usizeAsIsize {})"

        # ---------------------------------------------------------------- token calls
        def token_call(rust):
            lean, ty, hints = u.tokens[rust]

            def h(em, e, env, hint):
                args = e[2]
                if not args or not em.is_state(args[0], env):
                    raise TErr(f"{u.name}::{env.fn.name}: `{rust}` is expected to be called on the reader")
                if len(args) - 1 != len(hints):
                    raise TErr(f"{u.name}::{env.fn.name}: `{rust}` called with {len(args) - 1} arguments")
                cs = em.cargs(args[1:], env, hints)
                pre = [p for c in cs for p in c.pre]
                call = f"{ext}.tok ({lean}" + "".join(" " + paren(c.val) for c in cs) + ")"
                if ty == "()":
                    return Code("()", "()", pre + [call])
                t = env.fresh()
                return Code(t, ty, pre + [f"let {t} ← {call}"])
            return h

        for r in self.tokens:
            self.functions[r] = token_call(r)

        def uint_count(em, e, env, hint):
            args = e[2]
            if len(args) != 2 or not em.is_state(args[0], env) or args[1][0] != "str":
                raise TErr(f"{u.name}::{env.fn.name}: uint_count(reader, \"..\") expected")
            what = args[1][1].decode() if isinstance(args[1][1], bytes) else args[1][1]
            inst = u.uint_count_instances.get(what)
            if inst is None:
                raise TErr(f"{u.name}::{env.fn.name}: uint_count for `{what}`: unknown type argument")
            t = env.fresh()
            return Code(t, "Parsed<T, ParseError>", [f"let {t} ← {ext}.tok (Cnf.uintCount {inst})"])

        self.functions["token::uint_count"] = uint_count

        def unexpected(em, e, env, hint):
            args = e[2] if e[0] == "call" else [e[1]] + e[3]
            if not em.is_state(args[0], env):
                raise TErr(f"{u.name}::{env.fn.name}: `unexpected` is expected to be called on the reader")
            pre = []
            for a in args[1:]:
                pre += em.cexpr(a, env).pre
            return Code("()", "!", pre + [f"{ext}.tok Cnf.unexpected"])

        self.functions["token::unexpected"] = unexpected
        self.state_methods["unexpected_statement"] = unexpected

        def clause_lits(em, e, env, hint):
            args = e[2]
            if len(args) != 4 or not em.is_state(args[0], env):
                raise TErr(f"{u.name}::{env.fn.name}: clause_lits(input, &mut self.lit_buf, limit, hard) expected")
            f = em.state_field(args[1], env)
            if not f or f["lean"] != "litBuf":
                raise TErr(f"{u.name}::{env.fn.name}: the out-parameter of clause_lits is expected to be `self.lit_buf`")
            cs = em.cargs(args[2:], env, ["isize", "bool"])
            pre = [p for c in cs for p in c.pre]
            t = env.fresh()
            return Code(t, "Parsed<(), ParseError>",
                        pre + [f"let {t} ← {ext}.clauseLits l " + " ".join(paren(c.val) for c in cs)])

        self.functions["token::clause_lits"] = clause_lits

        # ---------------------------------------------------------------- and_then
        def and_then(em, e, env, hint):
            if not (e[0] == "mcall" and e[2] == "and_then" and len(e[3]) == 1 and e[3][0][0] == "closure"
                    and len(e[3][0][1]) == 1):
                return None
            p = em.cexpr(e[1], env)
            if not (p.ty and p.ty.startswith("Parsed<") and p.ty.endswith(", ParseError>")):
                raise TErr(f"{u.name}::{env.fn.name}: and_then on {p.ty}")
            par = e[3][0][1][0]
            while par[0] == "pref":
                par = par[1]
            sub = env.child()
            if par[0] == "pwild":
                ln = "_"
            elif par[0] == "pbind":
                ln = lname(par[1])
                sub.vars[par[1]] = (ln, p.ty[len("Parsed<"):-len(", ParseError>")])
            else:
                raise TErr("closure parameter pattern")
            body = e[3][0][2]
            lines = em.cvalue(body if body[0] == "block" else ("block", [], body, False), sub)
            ty = em._last_value_ty
            if ty in (None, "!"):
                raise TErr(f"{u.name}::{env.fn.name}: and_then closure of unknown result type")
            t = env.fresh()
            return Code(t, f"Parsed<{ty}, ParseError>", p.pre + [f"let {t} ← {ext}.andThen {paren(p.val)} fun {ln} => do", lines])

        self.chain_handlers = [and_then] + list(self.chain_handlers)

        # ---------------------------------------------------------------- struct literals
        def struct(em, e, env, hint):
            name = e[1][-1]
            if e[3] is not None:
                raise TErr("struct literal with a base")
            if name == "Header":
                got = [f for f, _ in e[2]]
                if sorted(got) != sorted(u.header_fields):
                    raise TErr(f"{u.name}: Header literal with fields {got}")
                cs = [(u.header_fields[f], em.cexpr(x, env, "T")) for f, x in e[2]]
                pre = [p for _, c in cs for p in c.pre]
                return Code("({ " + ", ".join(f"{lf} := {c.val}" for lf, c in cs) + " } : Cnf.Header)", "Header", pre)
            if name in ("Self", u.impl):
                got = [f for f, _ in e[2]]
                if got != u.struct[1]:
                    raise TErr(f"{u.name}: {name} literal with fields {got}")
                pre, parts = [], []
                for f, x in e[2]:
                    if f == "reader":
                        if not em.is_state(x, env):
                            raise TErr(f"{u.name}: the `reader` of the new parser is expected to be the reader parameter")
                        continue
                    cfg = u.fields[f]
                    c = em.cexpr(x, env, cfg["ty"])
                    pre += c.pre
                    parts.append(f"{cfg['lean']} := {c.val}")
                return Code("()", "&state", pre + [f"{ext}.setP {{ " + ", ".join(parts) + " }"])
            raise TErr(f"{u.name}::{env.fn.name}: struct literal `{name}` has no translation")

        self.struct_handler = struct

        def state_value(em, e, env, hint):
            t = env.fresh()
            return Code(t, "Self", [f"let {t} ← {ext}.getP"])

        self.state_value = state_value

        def vec_macro(em, e, env):
            if e[2]:
                raise TErr("vec![..] with elements")
            return Code("[]", "Vec<L>")

        self.macros["vec"] = vec_macro

        def clear(em, f, e, env, hint):
            return Code("()", "()", [f"{u.modify} fun r => {{ r with {f['lean']} := [] }}"])

        self.field_methods = {("Vec<L>", "clear"): clear}

    def local_method(self, name):
        if name == "unexpected_statement":
            return None
        return super().local_method(name)


UNIT = CnfParserUnit
