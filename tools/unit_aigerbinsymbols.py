"""Translation unit: the symbol table and comment readers of the binary AIGER parser, `impl ParseSymbols` of
flussab-aiger/src/binary.rs (`next_symbol`, `comment`) -> Gen/AigerBinSymbolsGen.lean.

The two functions are separate source text in binary.rs (at present identical to those of ascii.rs), so they get
their own generated file and their own tie theorems.  A subclass of the ASCII unit (unit_aigersymbols.py: same
state `Aiger.Parser`, monad `SYM`, contracts `Model/AigerSymbolsExt.lean`); the only difference is the field list
of `Parser`, which has the next-literal counter `code` in binary.rs (not used by these functions).

(`ParseAndGates::symbols` of binary.rs belongs to the unit aigerbinsections: Props/TieAigerBinSections
`symbols_tied`.)
"""
from unitbase import *
from unit_aigersymbols import AigerSymbolsUnit


class AigerBinSymbolsUnit(AigerSymbolsUnit):
    name = "aigerbinsymbols"
    file = "flussab-aiger/src/binary.rs"
    out = "AigerBinSymbolsGen.lean"
    namespace = "Flussab.Gen.AigerBinSymbols"
    structs = [("Parser", ["reader", "header", "max_lit", "code", "_lit_builder"]), ("ParseSymbols", ["parser"])]
    fields = dict(AigerSymbolsUnit.fields)
    fields["code"] = dict(lean="code", ty="usize")


UNIT = AigerBinSymbolsUnit
