"""Translation unit: `parse_log` and `Config::ignore_unknown_lines` of flussab-cnf/src/sat_solver_log.rs
-> Gen/SatLogGen.lean.

State: `LR` (the `input: &mut LineReader`), monad `PM`; the conventions, closure / `Parsed` combinator handlers and
the `L: Dimacs` treatment of tools/unit_cnftoken.py (`PMUnit.pm_common`, `PMUnit.pm_closures`, `CnfTokenUnit`).

Calls into token.rs are mapped to the *token models* (tied to token.rs by Props/TieCnfToken.lean; `unexpected` and
`exceeds_var_count` build messages and are tied by the correspondence runs only):
  token::interactive_strict_comment / interactive_skip_line / interactive_end_of_line / eof / skip_whitespace
  token::fixed(input, b"..")            -> `Cnf.fixed [..]`
  token::int::<isize>(input)            -> `Cnf.int Cnf.isizeTy`   (the parser of the Rust subset drops the turbofish; the
                                           instance is fixed here, as `("clause_lits", "int")` is in unit_cnftoken.py)
  token::unexpected(input, msg)         -> `Cnf.unexpected`        (the message is not modelled)
  token::exceeds_var_count(input, ..)   -> `Cnf.exceedsVarCount`
  input.reader.set_mark()               -> `PM.setMark`

Correspondence of the local variables of `parse_log` with the model's `Cnf.LogState` (Model/Cnf.lean); the generated
loops carry the Rust locals as a tuple, the tie theorems relate them by `TieSatLogAux.tup` (Proof/TieSatLog.lean):
  satisfiable: Option<Option<bool>>     = `st.satisfiable : Option (Option Bool)` (`None` = no solution line yet,
                                          `Some(None)` = "s UNKNOWN"); `satisfiable.is_none()` -> `.isNone`,
                                          `satisfiable.flatten()` -> `Option.join`
  assignment: Vec<L>                    = `st.assignment.reverse` (the model conses, the Rust code pushes):
                                          `vec![]` -> `[]`, `assignment.push(x)` -> `assignment := assignment ++ [x]`
  assignment_started / _finished: bool  = `st.started` / `st.finished`
  config: Config                        = the record `SatLogExt.Config` (Model/SatLogExt.lean; one field,
                                          `ignore_unknown_lines` -> `ignoreUnknownLines`; the field list is checked);
                                          the model function takes the field's value: `Cnf.parseLog l ignoreUnknown`
  Config::ignore_unknown_lines(mut self, value) -> Self { self.f = value; self }
                                        -> the record update `{ self with ignoreUnknownLines := value }`
                                           (`normalise_setter`); a pure function, generated in `PM` like the rest
  SolverLog { satisfiable, assignment } -> the model's record `Cnf.SolverLog`

Unit-level normalisations of the source tree (`normalise_parse_log`; any other shape is a translation failure):
  * `let mut satisfiable = None;` / `let mut assignment = vec![];` get the type annotations rustc infers
    (`Option<Option<bool>>`, `Vec<L>`);
  * `assignment.push(x)` becomes `assignment = assignment.pushed(x)` (as in `clause_lits` of unit_cnftoken.py);
  * the message of the final `token::unexpected(input, &expected)`: the statements that only build the `String`
    `expected` (`let mut expected = vec!["…"]`, `if <effect-free condition on locals> { expected.push("…") }`,
    `let last = expected.pop().unwrap()`, `let mut expected = expected.join(", ")`, `expected.push_str(..)`) are
    erased and the argument replaced by a string literal: messages are not modelled.  `expected.pop().unwrap()`
    cannot panic: the vector is created with one element by the `vec![..]` literal the normalisation insists on,
    and only `push` is applied to it before the `pop`.
Combinator added to those of `pm_closures`: `p.map(|_| v)` on a `Parsed<(), ParseError>` (closure without effects)
  -> `Option.map (fun _ => v) p`  (`Parsed::map`, parser.rs, tied by Props/TieParsed).

Loops: `loop1` = the outer `loop`, `loop2` = the comment-line `while`, `loop3` = the value-line `while let`.  They get
the fuel of the model's `logLoop` / `strictCommentLoop` / `valueLoop` and the model's out-of-fuel value
(`fuel_panic`), so the equations hold fuel for fuel and no termination argument is needed.
"""
import re
from unitbase import *
from unit_cnftoken import CnfTokenUnit


class SatLogUnit(CnfTokenUnit):
    name = "satlog"
    file = "flussab-cnf/src/sat_solver_log.rs"
    impl = None
    impls = ("Config",)
    out = "SatLogGen.lean"
    namespace = "Flussab.Gen.SatLog"
    imports = ["Flussab.Model.SatLogExt"]
    structs = (("Config", ["ignore_unknown_lines"]), ("SolverLog", ["satisfiable", "assignment"]))
    skip = {}
    self_value_type = "Config"      # `Config::ignore_unknown_lines(mut self, ..)`: `self` is an ordinary value
    rename = {}
    modelled = {
        "unexpected": ("Cnf.unexpected", "!"),
        "exceeds_var_count": ("Cnf.exceedsVarCount", "!"),
    }
    instances = {}
    # token.rs functions -> (hand model, result type, hints of the non-state arguments)
    tokens = {
        "token::skip_whitespace": ("Cnf.skipWhitespace", "()", []),
        "token::interactive_strict_comment": ("Cnf.interactiveStrictComment", "Parsed<(), ParseError>", []),
        "token::interactive_skip_line": ("Cnf.interactiveSkipLine", "Parsed<(), ParseError>", []),
        "token::interactive_end_of_line": ("Cnf.interactiveEndOfLine", "Parsed<(), ParseError>", []),
        "token::eof": ("Cnf.eof", "Parsed<(), ParseError>", []),
        "token::fixed": ("Cnf.fixed", "Parsed<(), ParseError>", ["[u8]"]),
        "token::int": ("Cnf.int Cnf.isizeTy", "Parsed<T, String>", []),
    }
    fuel = {
        ("parse_log", 1): "(← PMExt.getLR).v.rest.length + 2",
        ("parse_log", 2): "(← PMExt.getLR).v.rest.length + 1",
        ("parse_log", 3): "(← PMExt.getLR).v.rest.length + 2",
    }
    fuel_panic = {"parse_log": '(PM.rpanic "fuel")'}
    value_fields = {("Config", "ignore_unknown_lines"): ("ignoreUnknownLines", "bool")}
    local_types = {"satisfiable": "Option<Option<bool>>", "assignment": "Vec<L>"}

    def __init__(self):
        super().__init__()
        u = self
        self.types.update({
            "Config": "SatLogExt.Config", "Option<Option<bool>>": "Option (Option Bool)", "Option<bool>": "Option Bool",
            "SolverLog": "Cnf.SolverLog", "Result<SolverLog<L>, ParseError>": "Cnf.SolverLog", "Self": "SatLogExt.Config",
            "Parsed<Option<bool>, ParseError>": "Option (Option Bool)",
        })
        self.int_params = set(self.int_params) | {"isize"}

        # ---------------------------------------------------------------- token calls
        def token_call(rust):
            lean, ty, hints = u.tokens[rust]

            def h(em, e, env, hint):
                args = e[2]
                if not args or not em.is_state(args[0], env):
                    raise TErr(f"{u.name}::{env.fn.name}: `{rust}` is expected to be called on `input`")
                if len(args) - 1 != len(hints):
                    raise TErr(f"{u.name}::{env.fn.name}: `{rust}` called with {len(args) - 1} arguments")
                cs = em.cargs(args[1:], env, hints)
                pre = [p for c in cs for p in c.pre]
                call = lean + "".join(" " + paren(c.val) for c in cs)
                if ty == "()":
                    return Code("()", "()", pre + [call])
                t = env.fresh()
                return Code(t, ty, pre + [f"let {t} ← {call}"])
            return h

        # only the `token::`-qualified names (and the two hand-modelled message functions) are known
        self.functions = {k: v for k, v in self.functions.items()
                          if k in ("Ok", "Err", "L::from_dimacs", "unexpected", "exceeds_var_count")}
        self.functions["token::unexpected"] = self.functions.pop("unexpected")
        self.functions["token::exceeds_var_count"] = self.functions.pop("exceeds_var_count")
        for r in self.tokens:
            self.functions[r] = token_call(r)

        # ---------------------------------------------------------------- Option<Option<bool>>
        def is_none(em, c, e, env, hint):
            return Code(f"({c.val}).isNone", "bool", c.pre)

        def flatten_(em, c, e, env, hint):
            return Code(f"({c.val}).join", "Option<bool>", c.pre)

        self.value_methods[("Option<Option<bool>>", "is_none")] = is_none
        self.value_methods[("Option<Option<bool>>", "flatten")] = flatten_

        def vec_macro(em, e, env):
            if e[2]:
                raise TErr("vec![..] with elements")
            return Code("([] : List Int)", "Vec<L>")

        self.macros = dict(self.macros)
        self.macros["vec"] = vec_macro

        # ---------------------------------------------------------------- p.map(|_| v)
        def map_(em, e, env, hint):
            if not (e[0] == "mcall" and e[2] == "map" and len(e[3]) == 1 and e[3][0][0] == "closure"
                    and len(e[3][0][1]) == 1 and e[3][0][1][0][0] == "pwild"):
                return None
            p = em.cexpr(e[1], env)
            if p.ty != "Parsed<(), ParseError>":
                raise TErr(f"{u.name}::{env.fn.name}: map on {p.ty}")
            v = em.cexpr(e[3][0][2], env.child(), "Option<bool>")
            if v.pre:
                raise TErr(f"{u.name}::{env.fn.name}: map closure with effects")
            return Code(f"(Option.map (fun _ => ({v.val} : Option Bool)) {paren(p.val)})",
                        "Parsed<Option<bool>, ParseError>", p.pre)

        self.chain_handlers = [map_] + list(self.chain_handlers)

        # ---------------------------------------------------------------- SolverLog { .. }
        def struct(em, e, env, hint):
            name = e[1][-1]
            if name == "Config" and e[3] is not None:
                # `Config { f: v, ..base }` (produced by `normalise_setter`)
                base = em.cexpr(e[3], env, "Config")
                pre, parts = list(base.pre), []
                for f, x in e[2]:
                    vf = u.value_fields.get(("Config", f))
                    if not vf:
                        raise TErr(f"{u.name}: Config has no field `{f}` in the model")
                    c = em.cexpr(x, env, vf[1])
                    pre += c.pre
                    parts.append(f"{vf[0]} := {c.val}")
                return Code(f"({{ {base.val} with " + ", ".join(parts) + " } : SatLogExt.Config)", "Config", pre)
            if name != "SolverLog" or e[3] is not None:
                raise TErr(f"{u.name}::{env.fn.name}: struct literal `{name}` has no translation")
            got = [f for f, _ in e[2]]
            if got != ["satisfiable", "assignment"]:
                raise TErr(f"{u.name}: SolverLog literal with fields {got}")
            a = em.cexpr(e[2][0][1], env, "Option<bool>")
            b = em.cexpr(e[2][1][1], env, "Vec<L>")
            return Code(f"({{ satisfiable := {a.val}, assignment := {b.val} }} : Cnf.SolverLog)", "SolverLog",
                        a.pre + b.pre)

        self.struct_handler = struct

    # ------------------------------------------------------------------ source normalisation
    @property
    def fns(self):
        return self._fns

    @fns.setter
    def fns(self, d):
        for f in d.values():
            if f.name == "parse_log":
                if not (f.generics and re.fullmatch(r"<\s*L\s*>", f.generics.strip())):
                    raise TErr("satlog::parse_log: expected to be generic over the literal type `L` only")
                f.generics = None
                self.extra_binders[f.name] = self.dimacs_binder
                self.normalise_parse_log(f)
            elif f.impl_of is not None and f.impl_of[1] == "Config":
                self.normalise_setter(f)
        self._fns = d

    def normalise_setter(self, f):
        """Builder-style setter of `Config`: `fn f(mut self, value: T) -> Self { self.f = value; self }` is translated
        as the function returning the updated record, `Config { f: value, ..self }` (assignment to a field of the
        by-value `mut self`, which is then returned).  Any other shape is a translation failure."""
        b = f.body
        ok = (len(f.params) == 2 and f.params[0] == ("self", "mut") and f.params[1][0][0] == "pbind"
              and (f.ret or "").strip() == "Self" and b[0] == "block" and len(b[1]) == 1 and b[2] == ("path", ["self"]))
        if ok:
            st = b[1][0]
            st = st[1] if st[0] == "expr" else st
            ok = (st[0] == "assign" and st[1] == "=" and st[2][0] == "field" and st[2][1] == ("path", ["self"])
                  and st[3] == ("path", [f.params[1][0][1]]))
        if not ok:
            raise TErr(f"satlog::Config::{f.name}: not of the shape `(mut self, value) -> Self {{ self.field = value; self }}`")
        f.body = ("block", [], ("struct", ["Config"], [(st[2][2], st[3])], ("path", ["self"])), b[3])

    def normalise_parse_log(self, f):
        """See the module docstring: type annotations of two locals, `assignment.push`, message-only statements."""
        u = self
        annotated = set()
        MSG = {"expected", "last"}

        def pure_cond(c):
            if c[0] == "path" and len(c[1]) == 1:
                return True
            if c[0] == "un" and c[1] == "!":
                return pure_cond(c[2])
            if c[0] == "paren":
                return pure_cond(c[1])
            if c[0] == "bin" and c[1] in ("&&", "||"):
                return pure_cond(c[2]) and pure_cond(c[3])
            if c[0] == "mcall" and c[2] in ("is_none", "is_some") and not c[3]:
                return pure_cond(c[1])
            return False

        def msg_stmt(st, state):
            """Is `st` a statement that only builds the message?  `state`: has `expected` been created (by a
            non-empty `vec![..]`) / popped."""
            if st[0] == "let" and st[1][0] == "pbind" and st[1][1] in MSG and st[4] is None:
                init = st[3]
                if st[1][1] == "expected" and init[0] == "macro" and init[1] == "vec" and init[2] and \
                        all(x[0] == "str" for x in init[2]) and not state.get("vec"):
                    state["vec"] = True
                    return True
                if st[1][1] == "last" and state.get("vec") and not state.get("popped") and \
                        init == ("mcall", ("mcall", ("path", ["expected"]), "pop", []), "unwrap", []):
                    state["popped"] = True
                    return True
                if st[1][1] == "expected" and state.get("popped") and init[0] == "mcall" and \
                        init[1] == ("path", ["expected"]) and init[2] == "join" and all(x[0] == "str" for x in init[3]):
                    state["joined"] = True
                    return True
                return False
            if st[0] == "expr" and st[1][0] == "mcall" and st[1][1] == ("path", ["expected"]):
                m = st[1]
                if m[2] == "push" and state.get("vec") and not state.get("popped") and len(m[3]) == 1 and m[3][0][0] == "str":
                    return True
                if m[2] == "push_str" and state.get("joined") and len(m[3]) == 1 and \
                        (m[3][0][0] == "str" or m[3][0] == ("path", ["last"])):
                    return True
                return False
            if st[0] == "expr" and st[1][0] == "if" and st[1][3] is None and pure_cond(st[1][1]):
                b = st[1][2]
                return b[0] == "block" and b[2] is None and bool(b[1]) and all(msg_stmt(x, state) for x in b[1])
            return False

        def mentions(t, names):
            if isinstance(t, list):
                return any(mentions(x, names) for x in t)
            if not isinstance(t, tuple):
                return False
            if t and t[0] == "path" and len(t[1]) == 1 and t[1][0] in names:
                return True
            return any(mentions(x, names) for x in t[1:])

        def rw_block(b):
            stmts, state, out = b[1], {}, []
            for st in stmts:
                if msg_stmt(st, state):
                    continue
                out.append(rw(st))
            return ("block", out, rw(b[2]) if b[2] is not None else None) + tuple(b[3:])

        def rw(t):
            if isinstance(t, list):
                return [rw(x) for x in t]
            if not isinstance(t, tuple) or not t:
                return t
            if t[0] == "block":
                return rw_block(t)
            if t[0] == "let" and t[1][0] == "pbind" and t[1][1] in u.local_types and t[2] is None:
                annotated.add(t[1][1])
                return ("let", t[1], u.local_types[t[1][1]], rw(t[3]), t[4])
            if t[0] == "expr" and isinstance(t[1], tuple) and t[1][0] == "mcall" and t[1][1] == ("path", ["assignment"]):
                m = t[1]
                if m[2] == "push" and len(m[3]) == 1:
                    return ("assign", "=", ("path", ["assignment"]),
                            ("mcall", ("path", ["assignment"]), "pushed", [rw(m[3][0])]))
                raise TErr("satlog::parse_log: use of `assignment` other than push")
            if t[0] == "call" and t[1] == ("path", ["token", "unexpected"]) and len(t[2]) == 2 and \
                    strip_ref(t[2][1]) == ("path", ["expected"]):
                return ("call", t[1], [t[2][0], ("str", b"<expected>")])
            return tuple(rw(x) for x in t)

        f.body = rw(f.body)
        if annotated != set(u.local_types):
            raise TErr(f"satlog::parse_log: the locals {sorted(set(u.local_types) - annotated)} are no longer declared by a plain `let mut`")
        if mentions(f.body, MSG):
            raise TErr("satlog::parse_log: the message variables `expected` / `last` are used outside the message-building statements")

    def local_fn(self, short, path):
        return Unit.local_fn(self, short, path)


UNIT = SatLogUnit
