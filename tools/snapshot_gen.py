#!/usr/bin/env python3
"""snapshot_gen.py — copy the current generated files lean/Flussab/Gen/*.lean to lean/GenBaseline/.

lean/GenBaseline is the translation of the *pinned* source, kept next to the proofs that were written against it.
`./check` uses it in two ways when the translation of the current source does not build any more (a translation
failure, or generated definitions the driver's imports cannot compile with): (1) the replay's
`generated_model_diff` is the diff of Gen/ against it, (2) the driver (the executable hand model, which links the
generated reader / writer / scanners to run them next to the model) is built against it, so that the correspondence
runs and the search for a failing input still have their reference model.  Run this after a deliberate change of
the translator or of /repo (a `fix:` commit), on a clean /repo:  python3 tools/gen_core.py /repo lean/Flussab/Gen
(and the other tools/gen_*.py), then this script."""
import glob, os, shutil
ROOT = os.path.dirname(os.path.dirname(os.path.abspath(__file__)))
src, dst = os.path.join(ROOT, "lean", "Flussab", "Gen"), os.path.join(ROOT, "lean", "GenBaseline")
os.makedirs(dst, exist_ok=True)
for f in glob.glob(os.path.join(dst, "*.lean")):
    os.remove(f)
for f in sorted(glob.glob(os.path.join(src, "*.lean"))):
    shutil.copy(f, dst)
print(len(glob.glob(os.path.join(dst, "*.lean"))), "files")
