#!/usr/bin/env python3
"""
confirm_seed.py <seed-id> <agent-worktree> <property> <demo-file-relative> [--crate flussab]

Independently confirms a seeded change produced by a sub-agent, in a FRESH scratch worktree of
/repo (removed afterwards): the demo passes on the unchanged tree; the patch applies; the
workspace builds; the whole existing test suite passes with the patch; the demo fails with the
patch.  On success stores /verif/seeded/<seed-id>/{patch.diff, demo, NOTES.md, meta.json}.
"""
import json, os, shutil, subprocess, sys, time

def sh(cmd, cwd):
    p = subprocess.run(cmd, cwd=cwd, shell=True, stdout=subprocess.PIPE, stderr=subprocess.STDOUT,
                       env=dict(os.environ, CARGO_NET_OFFLINE="true"))
    return p.returncode, p.stdout.decode("utf-8", "replace")

sid, agent_wt, prop, demo_rel = sys.argv[1:5]
crate = sys.argv[sys.argv.index("--crate") + 1] if "--crate" in sys.argv else "flussab"
wt = f"/tmp/confirm_{sid}"
sh(f"git -C /repo worktree remove --force {wt}", "/")
rc, out = sh(f"git -C /repo worktree add -q --detach {wt} HEAD", "/")
assert rc == 0, out
# Cargo.lock is git-ignored in /repo: without it cargo would resolve other dependency versions
shutil.copy("/repo/Cargo.lock", os.path.join(wt, "Cargo.lock"))
log = []
try:
    patch = os.path.join(agent_wt, "patch.diff")
    demo_src = os.path.join(agent_wt, demo_rel)
    demo_name = os.path.basename(demo_rel)
    test_dir = os.path.join(wt, crate, "tests")
    os.makedirs(test_dir, exist_ok=True)
    shutil.copy(demo_src, os.path.join(test_dir, demo_name))
    tname = demo_name[:-3]
    rc0, o0 = sh(f"cargo test -p {crate} --test {tname} --offline 2>&1 | tail -15", wt)
    ok_unchanged = "test result: ok" in o0 and "FAILED" not in o0
    log.append(("demo on unchanged tree", ok_unchanged, o0[-600:]))
    rc1, o1 = sh(f"git apply {patch}", wt)
    log.append(("patch applies", rc1 == 0, o1[-300:]))
    os.remove(os.path.join(test_dir, demo_name))
    rc2, o2 = sh("cargo test --workspace --no-fail-fast --offline 2>&1 | grep -E 'test result|FAILED|^error' | head -20", wt)
    suite_ok = "FAILED" not in o2 and "\nerror" not in ("\n" + o2) and "test result: ok" in o2
    log.append(("existing suite passes with the change", suite_ok, o2[-800:]))
    shutil.copy(demo_src, os.path.join(test_dir, demo_name))
    rc3, o3 = sh(f"cargo test -p {crate} --test {tname} --offline 2>&1 | tail -25", wt)
    fails_changed = "FAILED" in o3 or "panicked" in o3
    log.append(("demo fails with the change", fails_changed, o3[-800:]))
    good = all(x[1] for x in log)
    for name, ok, txt in log:
        print(("OK   " if ok else "FAIL ") + name)
        if not ok:
            print(txt)
    if good:
        dst = f"/verif/seeded/{sid}"
        os.makedirs(dst, exist_ok=True)
        shutil.copy(patch, os.path.join(dst, "patch.diff"))
        shutil.copy(demo_src, os.path.join(dst, demo_name))
        if os.path.exists(os.path.join(agent_wt, "NOTES.md")):
            shutil.copy(os.path.join(agent_wt, "NOTES.md"), os.path.join(dst, "NOTES.md"))
        meta = dict(id=sid, breaks_property=prop, demo=demo_name, demo_crate=crate,
                    confirmed_at=time.strftime("%Y-%m-%dT%H:%M:%SZ", time.gmtime()),
                    repo_head=subprocess.run("git -C /repo rev-parse HEAD", shell=True, stdout=subprocess.PIPE).stdout.decode().strip(),
                    ran=[dict(step=n, ok=ok) for n, ok, _ in log],
                    needs_to_manifest="see NOTES.md", detected_by=[])
        json.dump(meta, open(os.path.join(dst, "meta.json"), "w"), indent=1)
        print("stored", dst)
    sys.exit(0 if good else 1)
finally:
    sh(f"git -C /repo worktree remove --force {wt}", "/")
