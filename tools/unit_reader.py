"""Translation unit: flussab/src/deferred_reader.rs -> Gen/ReaderGen.lean (state: Model.Reader)."""
from unitbase import *


# ======================================================================================= reader
def _unusedrange_args(em, rng, env):
    if rng[0] != "range" or rng[3]:
        raise TErr("expected a half-open range argument")
    lo = em.cexpr(rng[1], env, "usize") if rng[1] is not None else Code("0", "usize")
    hi = em.cexpr(rng[2], env, "usize")
    return lo, hi


class ReaderUnit(Unit):
    name = "reader"
    file = "flussab/src/deferred_reader.rs"
    impl = "DeferredReader"
    out = "ReaderGen.lean"
    namespace = "Flussab.Gen.Reader"
    imports = ["Flussab.Model.ReaderExt"]
    monad = "RM Reader"
    state_types = ("DeferredReader",)
    struct = ("DeferredReader", ["read", "buf", "pos_in_buf", "valid_len", "complete", "io_error", "pos_of_buf",
                                 "mark_in_buf", "chunk_size"])
    fields = {
        "read": dict(lean="src", ty="Box<dyn Read>"),
        "buf": dict(lean="buf", ty="Vec<u8>"),
        "pos_in_buf": dict(lean="posInBuf", ty="usize"),
        "valid_len": dict(lean="validLen", ty="usize"),
        "complete": dict(lean="complete", ty="bool"),
        "io_error": dict(lean="ioError", ty="Option<io::Error>", get="(ReaderExt.optOfBool {})", set="({}).isSome"),
        "pos_of_buf": dict(lean="posOfBuf", ty="usize"),
        # `mark_in_buf` is only ever combined with wrapping arithmetic: it is kept as the signed
        # difference mark - pos_of_buf (DESIGN §3.1; exact while position() has not wrapped)
        "mark_in_buf": dict(lean="markInBuf", ty="wusize", set="(({}) : Int)"),
        "chunk_size": dict(lean="chunk", ty="usize"),
    }
    types = {"io::Result<()>": "Except IoErr Unit", "Option<&io::Error>": "Option IoErr", "[u8]": "List UInt8",
             "Option<io::Error>": "Option IoErr", "io::Error": "IoErr", "wusize": "Int"}
    skip = {
        "from_buf_reader": "constructor glue over std::io::BufReader / Cursor::chain (contract in Source.pre)",
        "from_read": "boxes its argument",
        "from_boxed_dyn_read": "struct literal; initial field values are compared by the tie theorem `init_eq` through DEFAULTS",
        "buf_ptr": "returns a raw pointer (no Lean counterpart); its only use, the 8-byte load of the text scanners, is translated there",
    }
    fuel = {"request_cold": "(← RM.get).fuel + 1", "request_byte_at_offset_cold": "(← RM.get).fuel + 1",
            "request_more": "ReaderExt.retryFuel (← RM.get)"}
    consts = {"io::ErrorKind::Interrupted": ("IoErr.interrupted", "io::ErrorKind")}

    def __init__(self):
        super().__init__()

        def vec_len(em, f, e, env, hint):
            return Code(f"(← RM.get).{f['lean']}.length", "usize")

        def vec_get(em, f, e, env, hint):
            lo, hi = range_args(em, e[3][0], env)
            return Code(f"(sliceChecked (← RM.get).{f['lean']} {paren(lo.val)} {paren(hi.val)})", "Option<[u8]>", lo.pre + hi.pre)

        def vec_get_unchecked(em, f, e, env, hint):
            a = e[3][0]
            if a[0] == "range":
                lo, hi = range_args(em, a, env)
                t = env.fresh()
                return Code(t, "[u8]", lo.pre + hi.pre + [f"let {t} ← RM.liftOpt (sliceChecked (← RM.get).{f['lean']} {paren(lo.val)} {paren(hi.val)})"])
            i = em.cexpr(a, env, "usize")
            t = env.fresh()
            return Code(t, "u8", i.pre + [f"let {t} ← RM.liftOpt (indexChecked (← RM.get).{f['lean']} {paren(i.val)})"])

        def vec_copy_within(em, f, e, env, hint):
            lo, hi = range_args(em, e[3][0], env)
            d = em.cexpr(e[3][1], env, "usize")
            return Code("()", "()", lo.pre + hi.pre + d.pre + [f"ReaderExt.copyWithin {paren(lo.val)} {paren(hi.val)} {paren(d.val)}"])

        def vec_truncate(em, f, e, env, hint):
            n = em.cexpr(e[3][0], env, "usize")
            return Code("()", "()", n.pre + [f"ReaderExt.truncate {paren(n.val)}"])

        def vec_shrink(em, f, e, env, hint):
            return Code("()", "()", [])

        def vec_resize(em, f, e, env, hint):
            n = em.cexpr(e[3][0], env, "usize")
            v = em.cexpr(e[3][1], env, "u8")
            return Code("()", "()", n.pre + v.pre + [f"ReaderExt.resize {paren(n.val)} {paren(v.val)}"])

        def opt_take(em, f, e, env, hint):
            t = env.fresh()
            return Code(t, "Option<io::Error>", [f"let {t} ← ReaderExt.takeIoError"])

        def opt_as_ref(em, f, e, env, hint):
            return Code(f"(ReaderExt.optOfBool (← RM.get).{f['lean']})", "Option<&io::Error>")

        def read_read(em, f, e, env, hint):
            a = strip_ref(e[3][0])
            if a[0] != "index" or em.state_field(a[1], env) is None or em.state_field(a[1], env)["lean"] != "buf":
                raise TErr("reader: `read` is expected to fill a slice of self.buf")
            lo, hi = range_args(em, a[2], env)
            t = env.fresh()
            return Code(t, "io::Result<usize>", lo.pre + hi.pre + [f"let {t} ← ReaderExt.readInto {paren(lo.val)} {paren(hi.val)}"])

        self.field_methods = {
            ("Vec<u8>", "len"): vec_len, ("Vec<u8>", "get"): vec_get, ("Vec<u8>", "get_unchecked"): vec_get_unchecked,
            ("Vec<u8>", "copy_within"): vec_copy_within, ("Vec<u8>", "truncate"): vec_truncate,
            ("Vec<u8>", "shrink_to_fit"): vec_shrink, ("Vec<u8>", "resize"): vec_resize,
            ("Option<io::Error>", "take"): opt_take, ("Option<io::Error>", "as_ref"): opt_as_ref,
            ("Box<dyn Read>", "read"): read_read,
        }

        def osub(em, c, e, env, hint):
            a = em.cexpr(e[3][0], env, "usize")
            return Code(f"(usizeOSub {paren(c.val)} {paren(a.val)})", "(usize, bool)", c.pre + a.pre)

        def wadd(em, c, e, env, hint):
            a = em.cexpr(e[3][0], env, "usize")
            if a.ty == "wusize":      # pos_of_buf.wrapping_add(mark_in_buf): reduce mod 2^64
                return Code(f"((({c.val} : Int) + {a.val}) % (usizeModulus : Int)).toNat", "usize", c.pre + a.pre)
            # pos_of_buf.wrapping_add(pos_in_buf): position() has not wrapped (stated assumption)
            return Code(f"({c.val} + {a.val})", "usize", c.pre + a.pre)

        def wsub(em, c, e, env, hint):
            a = em.cexpr(e[3][0], env, "usize")
            return Code(f"(({c.val} : Int) - ({a.val} : Int))", "wusize", c.pre + a.pre)

        def is_some(em, c, e, env, hint):
            return Code(f"({c.val}).isSome", "bool", c.pre)

        def err_kind(em, c, e, env, hint):
            return Code(c.val, "io::ErrorKind", c.pre)

        self.value_methods = {
            ("usize", "overflowing_sub"): osub, ("usize", "wrapping_add"): wadd,
            ("usize", "wrapping_sub"): wsub, ("wusize", "wrapping_sub"): wsub,
            ("Option<[u8]>", "is_some"): is_some, ("io::Error", "kind"): err_kind,
        }



UNIT = ReaderUnit
