"""Translation unit: `impl LineReader` of flussab/src/text.rs -> Gen/LineReaderGen.lean (state `LR`, monad `PM`).

`line_at_offset`, `give_up`, `give_up_at`, `give_up_at_cold`.  The error value built by `give_up*` is the
final outcome of the parse, which the parser monad throws: `err.into()` of a parked `io::Error` is
`throw .io`, `SyntaxError { location: LineColumn { line, column }, msg }.into()` is `throw (.syn line column)`
(messages are not modelled).  `usize` additions and subtractions are the checked debug-build operations
here, because the line/column arithmetic is exactly what C05 (no panic) and C08 (error position) are about.
"""
from unitbase import *
from unit_cnftoken import PMUnit


class LineReaderUnit(PMUnit):
    name = "linereader"
    file = "flussab/src/text.rs"
    impl = "LineReader"
    out = "LineReaderGen.lean"
    namespace = "Flussab.Gen.LineReader"
    imports = ["Flussab.Model.PMExt"]
    state_vars = {"self"}
    state_subobjects = {"reader"}
    state_types = ("LineReader",)
    generic_binder = "{α : Type}"
    generic_arg = ""
    struct = ("LineReader", ["reader", "line", "line_start"])
    fields = {
        "line": dict(lean="line", ty="usize"),
        "line_start": dict(lean="lineStart", ty="usize"),
    }
    checked_add = True
    skip = {
        "new": "constructor (struct literal); initial values line = 1, line_start = position() are `LR.init`",
        "reader": "returns `&mut self.reader` (the sub-object; calls through it are resolved by the translator)",
    }

    def __init__(self):
        super().__init__()
        self.pm_common()
        self.types = dict(self.types)
        self.types.update({"E": "α", "impl Into<String>": "Unit", "String": "Unit"})

        def check_io(em, e, env, hint):
            t = env.fresh()
            return Code(t, "io::Result<()>", [f"let {t} ← PMExt.checkIoError"])

        self.state_methods = dict(self.state_methods)
        self.state_methods["check_io_error"] = check_io

        def into(em, c, e, env, hint):
            if c.ty in ("io::Error",):
                return Code("()", "!", c.pre + ["PMExt.throwIo"])
            if c.ty == "SyntaxError":
                return Code("()", "!", c.pre + [f"PMExt.throwSyn {c.val}"])
            if c.ty in ("impl Into<String>", "String", "str"):
                return Code("()", "String", c.pre)
            raise TErr(f"linereader: `.into()` on type {c.ty}")

        self.value_methods = dict(self.value_methods)
        self.value_methods[("*", "into")] = into

        def struct_lit(em, e, env, hint):
            return None

        self.macros = {}


def _struct(em, e, env, hint=None):
    """SyntaxError { location: LineColumn { line: L, column: C }, msg } -> the pair `L C`."""
    name = e[1][-1]
    fs = dict(e[2])
    if name == "SyntaxError":
        loc = fs["location"]
        if loc[0] != "struct" or loc[1][-1] != "LineColumn":
            raise TErr("SyntaxError.location is expected to be a LineColumn literal")
        lf = dict(loc[2])
        l = em.cexpr(lf["line"], env, "usize")
        c = em.cexpr(lf["column"], env, "usize")
        return Code(f"{paren(l.val)} {paren(c.val)}", "SyntaxError", l.pre + c.pre)
    raise TErr(f"struct literal `{name}`")


LineReaderUnit.struct_handler = staticmethod(_struct)
UNIT = LineReaderUnit
