"""Translation unit: the whole-file driver `Writer::write_ordered_aig` of flussab-aiger/src/binary.rs
-> Gen/AigerBinWriteDocGen.lean.  A subclass of unit_aigerwritedoc.py (see there); the state is
`AigerWriteExt.BinWriter` and the piece writers are the generated `Gen.AigerBinWrite.*` (Gen/AigerBinWriteGen.lean).
"""
from unit_aigerwritedoc import AigerWriteDocUnit


class AigerBinWriteDocUnit(AigerWriteDocUnit):
    name = "aigerbinwritedoc"
    file = "flussab-aiger/src/binary.rs"
    out = "AigerBinWriteDocGen.lean"
    namespace = "Flussab.Gen.AigerBinWriteDoc"
    imports = ["Flussab.Gen.AigerBinWriteGen"]
    monad = "RM AigerWriteExt.BinWriter"
    wl = "AigerWriteExt.liftW ({})"
    structs = [("Writer", ["writer", "code", "codec"])]
    fields = {"code": dict(lean="code", ty="usize")}
    pieces_ns = "Gen.AigerBinWrite"
    only = {"write_ordered_aig"}


UNIT = AigerBinWriteDocUnit
