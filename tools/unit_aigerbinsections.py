"""Translation unit: the section readers of the binary AIGER parser, flussab-aiger/src/binary.rs
-> Gen/AigerBinSectionsGen.lean.

A subclass of the ASCII unit (unit_aigersections.py: monad `ASM = StateT Aiger.St PM`, `<count>_left` -> `left`,
`total_local_fairness_count` -> `total`, `L` -> `p.lit`, the transitions' struct literals -> record updates,
token.rs calls -> the token models, checked `usize` `-=`, `-`, `+=`, the draining loops with the fuel
`left + 1`).  One unit over nine `impl` blocks: `Parser::latches` and every method of `ParseLatches`,
`ParseOutputs`, `ParseBadStateProperties`, `ParseInvariantConstraints`, `ParseJusticePropertySizes`,
`ParseJusticePropertyLocalFairnessConstraints`, `ParseFairnessConstraints`, `ParseAndGates`.

What binary.rs has in addition to ascii.rs:
  self.parser.code                         -> `(← getS).p.code` (the next-literal counter, a field of `Parser` in
                                              binary.rs only; the model's `Aiger.Parser.code`)
  self.parser.code = v                     -> `modifyS fun r => { r with p.code := v }`
  x.wrapping_add(y) on `usize`             -> `((x + y) % 2 ^ 64)` (as in unit_aigerparsernew.py)
  token::delta_code(reader, code, _, _)    -> `Aiger.deltaCode code` (the two strings only select the message;
                                              tied by Props/TieAigerToken `delta_code_tied`)
  `OrderedLatch { next_state, initialization }`, `OrderedAndGate { inputs: [a, b] }`
                                           -> the model's `Aiger.OLatch` / `Aiger.OGate` records
  `ParseLatches { latches_left: v, parser: self }` in `impl Parser` (there is no input section in a binary file)
                                           -> `{ p := s.p, left := v }` (no section state before it)

`impl ParseInputs` of binary.rs (`next_input`, `latches`) is not part of the unit: nothing in binary.rs constructs
a `ParseInputs` (binary files have no input section; `Parser` has no `inputs()`), the struct is unreachable from
the public API, and its `latches` would clash with `Parser::latches`.
"""
from unitbase import *
from unit_aigersections import AigerSectionsUnit, SECTIONS


class AigerBinSectionsUnit(AigerSectionsUnit):
    name = "aigerbinsections"
    file = "flussab-aiger/src/binary.rs"
    impls = ("Parser",) + tuple(s for s in SECTIONS if s not in ("ParseSymbols", "ParseInputs"))
    out = "AigerBinSectionsGen.lean"
    namespace = "Flussab.Gen.AigerBinSections"
    structs = [("Parser", ["reader", "header", "max_lit", "code", "_lit_builder"])] + \
              [(s, f) for s, (f, _) in SECTIONS.items()]
    skip = {
        "from_buf_reader": "constructor: builds the DeferredReader / LineReader, then calls `new`",
        "from_read": "constructor: builds the DeferredReader / LineReader, then calls `new`",
        "from_boxed_dyn_read": "constructor: builds the DeferredReader / LineReader, then calls `new`",
        "new": "translated by the unit aigernew_binary (Props/TieAigerNew)",
        "header": "accessor returning a reference to the field `header`",
        "parse": "whole-file driver: translated by the unit aigerbinparse (Props/TieAigerParse `parse_bin_tied`)",
    }
    fields = dict(AigerSectionsUnit.fields)
    fields["code"] = dict(lean="p.code", ty="usize")
    fuel = {f: "(← AigerSectionsExt.getS).left + 1" for f in (
        "outputs", "bad_state_properties", "invariant_constraints", "justice_properties",
        "justice_property_local_fairness_constraints", "fairness_constraints", "and_gates", "symbols")}

    def __init__(self):
        super().__init__()
        u = self
        self.types.update({
            "OrderedLatch<L>": "Aiger.OLatch", "Option<OrderedLatch<L>>": "Option Aiger.OLatch",
            "Result<Option<OrderedLatch<L>>, ParseError>": "Option Aiger.OLatch",
            "OrderedAndGate<L>": "Aiger.OGate", "Option<OrderedAndGate<L>>": "Option Aiger.OGate",
            "Result<Option<OrderedAndGate<L>>, ParseError>": "Option Aiger.OGate",
        })
        # the two strings only select the message
        self.functions["token::delta_code"] = self.tok_handler(
            "Aiger.deltaCode", "Result<usize, ParseError>", ["usize", "str", "str"])

        def wadd(em, c, e, env, hint):
            a = em.cexpr(e[3][0], env, "usize")
            return Code(f"(({c.val} + {a.val}) % 2 ^ 64)", "usize", c.pre + a.pre)

        self.value_methods = dict(self.value_methods)
        self.value_methods[("usize", "wrapping_add")] = wadd

        ascii_struct = self.struct_handler

        def struct(em, e, env, hint):
            name = e[1][-1]
            if name not in ("OrderedLatch", "OrderedAndGate"):
                return ascii_struct(em, e, env, hint)
            if e[3] is not None:
                raise TErr("struct literal with a base")
            got = [f for f, _ in e[2]]
            vals = dict(e[2])
            if name == "OrderedLatch":
                if got != ["next_state", "initialization"]:
                    raise TErr(f"{u.name}: OrderedLatch literal with fields {got}")
                cs = [("next", em.cexpr(vals["next_state"], env, "L")),
                      ("init", em.cexpr(vals["initialization"], env, "Option<bool>"))]
                pre = [p for _, c in cs for p in c.pre]
                return Code("({ " + ", ".join(f"{lf} := {c.val}" for lf, c in cs) + " } : Aiger.OLatch)",
                            "OrderedLatch<L>", pre)
            if got != ["inputs"] or vals["inputs"][0] != "array" or len(vals["inputs"][1]) != 2:
                raise TErr(f"{u.name}: OrderedAndGate literal with fields {got}")
            cs = [("in0", em.cexpr(vals["inputs"][1][0], env, "L")), ("in1", em.cexpr(vals["inputs"][1][1], env, "L"))]
            pre = [p for _, c in cs for p in c.pre]
            return Code("({ " + ", ".join(f"{lf} := {c.val}" for lf, c in cs) + " } : Aiger.OGate)",
                        "OrderedAndGate<L>", pre)

        self.struct_handler = struct


UNIT = AigerBinSectionsUnit
